package branch_control

const verifBoundPat = 3
const verifBoundStr = 2
const verifBoundFoldPat = 4
const verifBoundRulePat = 2
const verifBoundHistPat = 2
const verifBoundReq = 2
