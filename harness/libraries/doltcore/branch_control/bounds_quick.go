package branch_control

const verifBoundPat = 3
const verifBoundStr = 2
