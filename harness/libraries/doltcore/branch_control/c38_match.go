package branch_control

import (
	"github.com/dolthub/go-mysql-server/sql"
)

// verifRefLike is the reference SQL LIKE matcher of the property statement: '_' one character, '%' any run
// (including the empty one), backslash makes the next character literal (a trailing backslash is ignored, as
// ParseExpression does), everything else literal.
func verifRefLike(p, s string) bool {
	if len(p) == 0 {
		return len(s) == 0
	}
	switch p[0] {
	case '\\':
		if len(p) == 1 {
			return len(s) == 0
		}
		if len(s) == 0 || s[0] != p[1] {
			return false
		}
		return verifRefLike(p[2:], s[1:])
	case '_':
		if len(s) == 0 {
			return false
		}
		return verifRefLike(p[1:], s[1:])
	case '%':
		if verifRefLike(p[1:], s) {
			return true
		}
		if len(s) == 0 {
			return false
		}
		return verifRefLike(p, s[1:])
	default:
		if len(s) == 0 || s[0] != p[0] {
			return false
		}
		return verifRefLike(p[1:], s[1:])
	}
}

func verifString(label, alphabet string, max int) string {
	n := verifNondetInt(label + "-len")
	verifAssume(0 <= n)
	verifAssume(n <= max)
	n = verifConcrete(n, 16)
	b := verifNondetBytes(label, n)
	for i := range b {
		verifAssume(verifIn(b[i], alphabet))
	}
	return string(b)
}

// H-C38-match: FoldExpression + ParseExpression + Match (the path Namespace.CanCreate uses for branch, user and
// host) decide exactly SQL LIKE, for every pattern of <= verifBoundPat bytes over {a b _ % \} and every subject of
// <= verifBoundStr bytes over {a b c}, including the empty subject and the empty pattern.
func verifH_C38_match() {
	verifPanicIsViolation()
	verifUnwind(64)
	pat := verifString("pat", "ab_%\\", verifBoundPat)
	str := verifString("str", "abc", verifBoundStr)
	coll := sql.Collation_utf8mb4_0900_bin
	folded := FoldExpression(pat)
	exprs := []MatchExpression{{CollectionIndex: 0, SortOrders: ParseExpression(folded, coll)}}
	res := Match(exprs, str, coll)
	got := len(res) > 0
	want := verifRefLike(pat, str)
	verifAssert(got == want, "match-iff-like")
	verifCover(verifAnd(got, len(str) == 0), "empty-subject-matches-something")
	verifReach("end")
}

// H-C38-fold: FoldExpression is idempotent, never longer than its input and keeps the LIKE language (checked against
// the reference on every subject within the bound; the subject alphabet contains '%' and '\\' themselves, which is
// what an escaped wildcard in the pattern has to match literally).
func verifH_C38_fold() {
	verifPanicIsViolation()
	verifUnwind(64)
	pat := verifString("pat", "a_%\\", verifBoundFoldPat)
	str := verifString("str", "a%\\", verifBoundStr)
	folded := FoldExpression(pat)
	verifAssert(len(folded) <= len(pat), "never-longer")
	verifAssert(FoldExpression(folded) == folded, "idempotent")
	verifAssert(verifRefLike(folded, str) == verifRefLike(pat, str), "same-language")
	verifReach("end")
}

// H-C38-trie: the rule trie (MatchNode.Add / Match, the path Access.Match uses) decides the same LIKE relation for
// the branch column as the reference, for one rule with a symbolic branch pattern and '%' in the other columns.
// The subject alphabet contains '_' because branch names commonly do.
func verifH_C38_trie() {
	verifPanicIsViolation()
	verifUnwind(64)
	pat := verifString("pat", "ab_%\\", verifBoundPat)
	str := verifString("str", "ab_", verifBoundStr)
	root := &MatchNode{SortOrders: []int32{columnMarker}, Children: make(map[int32]*MatchNode)}
	root.Add("%", FoldExpression(pat), "%", "%", MatchNodeData{Permissions: Permissions_Write, RowIndex: 0})
	results := root.Match("d", str, "u", "h")
	got := len(results) > 0
	want := verifRefLike(pat, str)
	// Class of inputs of the recorded finding (known_findings.json): the rule escapes an underscore and the
	// requested branch contains an underscore. Everything outside that class must hold.
	hasEsc, strHasUnd := false, false
	for i := 0; i+1 < len(pat); i++ {
		hasEsc = verifOr(hasEsc, verifAnd(pat[i] == '\\', pat[i+1] == '_'))
	}
	for i := 0; i < len(str); i++ {
		strHasUnd = verifOr(strHasUnd, str[i] == '_')
	}
	class := verifAnd(hasEsc, strHasUnd)
	verifAssert(verifImplies(!class, got == want), "trie-match-iff-like")
	verifAssert(verifImplies(class, got == want), "trie-match-iff-like:escaped-underscore-vs-underscore-in-request")
	verifReach("end")
}
