package branch_control

import (
	"github.com/dolthub/go-mysql-server/sql"
)

// verifRefLen is the length of a pattern after the documented folding ("%%" -> "%", "%_" -> "_%"): every literal and
// every '_' counts one, every maximal run of wildcards that contains a '%' counts one more. (No escapes in the
// alphabets used with it.)
func verifRefLen(p string) int {
	n := 0
	inRun, runHasAny := false, false
	for i := 0; i < len(p); i++ {
		c := p[i]
		if c == '%' || c == '_' {
			if !inRun {
				inRun, runHasAny = true, false
			}
			if c == '_' {
				n++
			} else if !runHasAny {
				runHasAny = true
				n++
			}
		} else {
			inRun = false
			n++
		}
	}
	return n
}

// verifRefCanon is the canonical form of a pattern under the same folding, used only to state "the rules are
// pairwise different".
func verifRefCanon(p string) string {
	out := make([]byte, 0, len(p))
	i := 0
	for i < len(p) {
		c := p[i]
		if c != '%' && c != '_' {
			out = append(out, c)
			i++
			continue
		}
		any := false
		for i < len(p) && (p[i] == '%' || p[i] == '_') {
			if p[i] == '_' {
				out = append(out, '_')
			} else {
				any = true
			}
			i++
		}
		if any {
			out = append(out, '%')
		}
	}
	return string(out)
}

func verifClosure(p Permissions) Permissions {
	if p&Permissions_Admin != 0 {
		return p | Permissions_Write | Permissions_Merge | Permissions_Read
	}
	if p&Permissions_Write != 0 {
		return p | Permissions_Merge | Permissions_Read
	}
	if p&Permissions_Merge != 0 {
		return p | Permissions_Read
	}
	return p
}

type verifRule struct {
	pat  string
	perm Permissions
	live bool
}

// verifExpect evaluates the current rule set directly, as the property states it: the matching rules with the longest
// pattern decide, their permissions are OR-ed and closed under Admin > Write > Merge > Read.
func verifExpect(rules []verifRule, req string) (bool, Permissions) {
	best := -1
	var perms Permissions
	for _, r := range rules {
		if !r.live || !verifRefLike(r.pat, req) {
			continue
		}
		l := verifRefLen(r.pat)
		if l > best {
			best, perms = l, r.perm
		} else if l == best {
			perms |= r.perm
		}
	}
	return best >= 0, verifClosure(perms)
}

func verifAccessInsert(tbl *Access, inHost bool, pat string, perm Permissions) {
	if inHost {
		tbl.Insert("%", "%", "u", pat, perm)
	} else {
		tbl.Insert("%", pat, "u", "%", perm)
	}
}

func verifAccessMatch(tbl *Access, inHost bool, req string) (bool, Permissions) {
	if inHost {
		return tbl.Match("d", "br", "u", req)
	}
	return tbl.Match("d", req, "u", "h")
}

// H-C38-access-longest: Access.Match over a table of TWO rules built by Access.Insert (FoldExpression + trie Add)
// equals the direct evaluation of the rule set: longest matching pattern wins, ties are OR-ed. The symbolic patterns
// sit in the branch column or in the host column (the last one, where a rule that is a prefix of another rule is a
// data node with children).
// bounds: patterns of 1..verifBoundRulePat bytes over {a b % _}, request of 0..verifBoundReq bytes over {a b}.
func verifH_C38_access_longest() {
	verifPanicIsViolation()
	verifUnwind(64)
	inHost := verifNondetBool("symbolic-column-is-host")
	p0 := verifString("pat0", "ab%_", verifBoundRulePat)
	p1 := verifString("pat1", "ab%_", verifBoundRulePat)
	verifAssume(len(p0) > 0)
	verifAssume(len(p1) > 0)
	verifAssume(!verifStrEq(verifRefCanon(p0), verifRefCanon(p1)))
	req := verifString("req", "ab", verifBoundReq)
	tbl := newAccess()
	tbl.reinit()
	verifAccessInsert(tbl, inHost, p0, Permissions_Admin)
	verifAccessInsert(tbl, inHost, p1, Permissions_Merge)
	rules := []verifRule{{p0, Permissions_Admin, true}, {p1, Permissions_Merge, true}}
	got, gotPerm := verifAccessMatch(tbl, inHost, req)
	want, wantPerm := verifExpect(rules, req)
	verifObserve("matched", verifIteU64(got, 1, 0))
	verifObserve("perms", uint64(gotPerm))
	verifAssert(got == want, "matched-iff-some-rule-matches")
	verifAssert(gotPerm == wantPerm, "permissions-of-longest-matching-rules")
	verifCover(verifAnd(want, wantPerm == verifClosure(Permissions_Admin|Permissions_Merge)), "tie")
	verifCover(verifAnd(verifRefLike(p0, req), verifAnd(verifRefLike(p1, req), wantPerm == verifClosure(Permissions_Merge))), "longer-rule-wins")
	verifReach("end")
}

// H-C38-access-history: three rules inserted in an arbitrary order (the patterns are symbolic, so every assignment of
// patterns to insert positions is covered), then optionally one of them deleted: Access.Match equals the direct
// evaluation of the CURRENT rule set.
// bounds: patterns of 1..verifBoundHistPat bytes over {a b} plus the pattern "%"; request of 0..verifBoundReq bytes.
func verifH_C38_access_history() {
	verifPanicIsViolation()
	verifUnwind(64)
	inHost := verifNondetBool("symbolic-column-is-host")
	perms := []Permissions{Permissions_Admin, Permissions_Write, Permissions_Merge}
	rules := make([]verifRule, 3)
	for i := range rules {
		p := verifString("pat", "ab", verifBoundHistPat)
		verifAssume(len(p) > 0)
		if verifNondetBool("is-any") {
			p = "%"
		}
		rules[i] = verifRule{p, perms[i], true}
	}
	verifAssume(!verifStrEq(rules[0].pat, rules[1].pat))
	verifAssume(!verifStrEq(rules[0].pat, rules[2].pat))
	verifAssume(!verifStrEq(rules[1].pat, rules[2].pat))
	req := verifString("req", "ab", verifBoundReq)
	tbl := newAccess()
	tbl.reinit()
	for _, r := range rules {
		verifAccessInsert(tbl, inHost, r.pat, r.perm)
	}
	del := verifNondetInt("delete")
	verifAssume(0 <= del)
	verifAssume(del <= 3)
	del = verifConcrete(del, 8)
	if del < 3 {
		if inHost {
			tbl.Delete("%", "%", "u", rules[del].pat)
		} else {
			tbl.Delete("%", rules[del].pat, "u", "%")
		}
		rules[del].live = false
	}
	got, gotPerm := verifAccessMatch(tbl, inHost, req)
	want, wantPerm := verifExpect(rules, req)
	verifObserve("matched", verifIteU64(got, 1, 0))
	verifObserve("perms", uint64(gotPerm))
	verifAssert(got == want, "matched-iff-some-current-rule-matches")
	verifAssert(gotPerm == wantPerm, "permissions-of-current-rule-set")
	verifCover(verifAnd(del < 3, want), "match-after-delete")
	verifReach("end")
}

// H-C38-cancreate: Namespace.CanCreate over TWO namespace rows (database '%', symbolic branch pattern, user 'u' or
// 'v', host '%') equals the documented rule: unrestricted when no row's branch pattern matches, otherwise some row
// among those with the longest (folded) branch pattern must name the user.
func verifH_C38_cancreate() {
	verifPanicIsViolation()
	verifUnwind(64)
	acc := newAccess()
	acc.reinit()
	ns := newNamespace(acc)
	type row struct {
		pat  string
		user string
	}
	rows := make([]row, 2)
	for i := range rows {
		p := verifString("pat", "a%_", verifBoundRulePat)
		u := "u"
		if verifNondetBool("user-v") {
			u = "v"
		}
		rows[i] = row{p, u}
		folded := FoldExpression(p)
		idx := uint32(len(ns.Values))
		ns.Databases = append(ns.Databases, MatchExpression{CollectionIndex: idx, SortOrders: ParseExpression("%", sql.Collation_utf8mb4_0900_ai_ci)})
		ns.Branches = append(ns.Branches, MatchExpression{CollectionIndex: idx, SortOrders: ParseExpression(folded, sql.Collation_utf8mb4_0900_ai_ci)})
		ns.Users = append(ns.Users, MatchExpression{CollectionIndex: idx, SortOrders: ParseExpression(u, sql.Collation_utf8mb4_0900_bin)})
		ns.Hosts = append(ns.Hosts, MatchExpression{CollectionIndex: idx, SortOrders: ParseExpression("%", sql.Collation_utf8mb4_0900_ai_ci)})
		ns.Values = append(ns.Values, NamespaceValue{Database: "%", Branch: folded, User: u, Host: "%"})
	}
	req := verifString("req", "ab", verifBoundReq)
	who := "u"
	if verifNondetBool("request-user-v") {
		who = "v"
	}
	got := ns.CanCreate("d", req, who, "h")
	best, ok := -1, false
	for _, r := range rows {
		if !verifRefLike(r.pat, req) {
			continue
		}
		l := verifRefLen(r.pat)
		if l > best {
			best, ok = l, false
		}
		if l == best && verifStrEq(r.user, who) {
			ok = true
		}
	}
	want := verifOr(best < 0, ok)
	verifObserve("cancreate", verifIteU64(got, 1, 0))
	verifAssert(got == want, "cancreate-as-documented")
	verifCover(best < 0, "unrestricted")
	verifCover(verifAnd(best >= 0, !ok), "refused")
	verifReach("end")
}
