package branch_control

const verifBoundPat = 4
const verifBoundStr = 4
