package branch_control

const verifBoundPat = 4
const verifBoundStr = 4
const verifBoundFoldPat = 4
const verifBoundRulePat = 3
const verifBoundHistPat = 2
const verifBoundReq = 3
