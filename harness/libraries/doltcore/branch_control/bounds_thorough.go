package branch_control

const verifBoundPat = 4
const verifBoundStr = 3
const verifBoundFoldPat = 4
const verifBoundRulePat = 2
const verifBoundHistPat = 2
const verifBoundReq = 3
