package doltdb

// verifRefParse is the reference parser of ancestor specs `(^[digits]|~[digits])*` from the documentation of
// AncestorSpec: ^n selects parent n (n in {1,2}, default 1) -> instruction n-1; ~n walks n first parents (default 1).
// Returns ok=false when the text is not in the language.
func verifRefParse(spec string) (inst []int, ok bool) {
	i := 0
	for i < len(spec) {
		op := spec[i]
		if op != '^' && op != '~' {
			return nil, false
		}
		i++
		num, digits := 0, 0
		for i < len(spec) && spec[i] >= '0' && spec[i] <= '9' {
			num = num*10 + int(spec[i]-'0')
			digits++
			i++
		}
		if digits == 0 {
			num = 1
		}
		if op == '^' {
			if num != 1 && num != 2 {
				return nil, false
			}
			inst = append(inst, num-1)
		} else {
			for j := 0; j < num; j++ {
				inst = append(inst, 0)
			}
		}
	}
	return inst, true
}

func verifTrim(s string) string {
	for len(s) > 0 && s[0] == ' ' {
		s = s[1:]
	}
	for len(s) > 0 && s[len(s)-1] == ' ' {
		s = s[:len(s)-1]
	}
	return s
}

func verifSpecString(label string, alphabet string, max int) string {
	n := verifNondetInt("n")
	verifAssume(0 <= n)
	verifAssume(n <= max)
	n = verifConcrete(n, 64)
	b := verifNondetBytes(label, n)
	for i := range b {
		verifAssume(verifIn(b[i], alphabet))
		// at most two consecutive digits, or three when the first is a zero (zero-padded counts such as ~010), so
		// that ~n walks at most 88 parents (keeps the unwinding bound finite)
		if i >= 2 {
			three := verifAnd(verifAnd(verifIn(b[i], "0123456789"), verifIn(b[i-1], "0123456789")), verifIn(b[i-2], "0123456789"))
			verifAssume(verifOr(!three, b[i-2] == '0'))
		}
		if i >= 3 {
			verifAssume(!verifAnd(verifAnd(verifIn(b[i], "0123456789"), verifIn(b[i-1], "0123456789")), verifAnd(verifIn(b[i-2], "0123456789"), verifIn(b[i-3], "0123456789"))))
		}
	}
	return string(b)
}

// H-C44-ancestor: SplitAncestorSpec either fails or returns exactly the base name and the instruction list the
// reference parser gives for the trimmed text: leading/trailing blanks never produce a different commit.
// bounds: strings of <= verifBoundSpec bytes over {a ^ ~ 0 1 2 8 space}, at most two consecutive digits (three after a
// leading zero).
func verifH_C44_ancestor() {
	verifPanicIsViolation()
	verifUnwind(128)
	s := verifSpecString("spec", "a^~0128 ", verifBoundSpec)
	name, as, err := SplitAncestorSpec(s)
	trimmed := verifTrim(s)
	idx := len(trimmed)
	for i := 0; i < len(trimmed); i++ {
		if trimmed[i] == '^' || trimmed[i] == '~' {
			idx = i
			break
		}
	}
	wantBase, wantSuffix := trimmed[:idx], trimmed[idx:]
	wantInst, wantOK := verifRefParse(wantSuffix)
	if err == nil {
		verifAssert(name == wantBase, "base-name")
		verifAssert(wantOK, "accepted-only-if-in-language")
		if wantOK {
			verifAssert(len(as.Instructions) == len(wantInst), "instruction-count")
			if len(as.Instructions) == len(wantInst) {
				for i := range wantInst {
					verifAssert(as.Instructions[i] == wantInst[i], "instruction")
				}
			}
		}
	} else if s == trimmed {
		// without surrounding blanks the function must accept exactly the language
		verifAssert(!wantOK, "rejected-only-if-not-in-language")
	}
	verifCover(verifAnd(err == nil, idx < len(trimmed)), "accepted-with-suffix")
	verifReach("end")
}

// H-C44-commitspec: NewCommitSpec agrees with parsing the base name and the ancestor suffix separately: the base is
// classified head / hash / ref by itself, and the instructions are those of the suffix.
// bounds: strings of <= verifBoundSpec bytes over {h e a d H ^ ~ 1 2 space /}.
func verifH_C44_commitspec() {
	verifPanicIsViolation()
	verifUnwind(64)
	s := verifSpecString("spec", "headH^~12 /", verifBoundSpec)
	cs, err := NewCommitSpec(s)
	trimmed := verifTrim(s)
	idx := len(trimmed)
	for i := 0; i < len(trimmed); i++ {
		if trimmed[i] == '^' || trimmed[i] == '~' {
			idx = i
			break
		}
	}
	base, suffix := trimmed[:idx], trimmed[idx:]
	wantInst, wantOK := verifRefParse(suffix)
	if err == nil {
		verifAssert(wantOK, "suffix-in-language")
		baseOnly, berr := NewCommitSpec(base)
		verifAssert(berr == nil, "base-alone-is-accepted")
		if berr == nil {
			verifAssert(cs.csType == baseOnly.csType, "same-kind-as-base-alone")
			verifAssert(cs.baseSpec == baseOnly.baseSpec, "same-base-as-base-alone")
		}
		if wantOK {
			verifAssert(len(cs.aSpec.Instructions) == len(wantInst), "instruction-count")
			if len(cs.aSpec.Instructions) == len(wantInst) {
				for i := range wantInst {
					verifAssert(cs.aSpec.Instructions[i] == wantInst[i], "instruction")
				}
			}
		}
	}
	verifCover(verifAnd(err == nil, idx < len(trimmed)), "accepted-with-suffix")
	verifReach("end")
}

// H-C44-hashspec: a commit hash (32 characters of [0-9a-v]) followed by an ancestor suffix of <= 3 bytes over
// {^ ~ 1 2}: NewCommitSpec classifies it as a hash spec whose base is the hash alone - the same base as the hash parsed without the suffix - and whose instructions are those of the suffix.
func verifH_C44_hashspec() {
	verifPanicIsViolation()
	verifUnwind(64)
	h := "0123456789abcdefghijklmnopqrstuv"
	suffix := verifSpecString("suffix", "^~12", 3)
	if len(suffix) > 0 {
		verifAssume(verifOr(suffix[0] == '^', suffix[0] == '~'))
	}
	cs, err := NewCommitSpec(h + suffix)
	wantInst, wantOK := verifRefParse(suffix)
	verifAssert((err == nil) == wantOK, "accepted-iff-suffix-in-language")
	if err != nil {
		return
	}
	baseOnly, berr := NewCommitSpec(h)
	verifAssert(berr == nil, "hash-alone-is-accepted")
	verifAssert(cs.csType == hashCommitSpec, "classified-as-hash")
	if berr == nil {
		verifAssert(cs.baseSpec == baseOnly.baseSpec, "same-base-as-hash-alone")
	}
	verifAssert(len(cs.baseSpec) == 32, "base-is-the-hash")
	verifAssert(len(cs.aSpec.Instructions) == len(wantInst), "instruction-count")
	if len(cs.aSpec.Instructions) == len(wantInst) {
		for i := range wantInst {
			verifAssert(cs.aSpec.Instructions[i] == wantInst[i], "instruction")
		}
	}
	verifCover(len(suffix) > 0, "with-suffix")
	verifReach("end")
}
