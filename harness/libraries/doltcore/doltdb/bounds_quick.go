package doltdb

const verifBoundSpec = 4
