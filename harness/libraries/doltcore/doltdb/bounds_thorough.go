package doltdb

const verifBoundSpec = 5
