package doltdb

const verifBoundSpec = 6
