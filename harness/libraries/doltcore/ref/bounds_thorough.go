package ref

const verifBoundName = 8
