package ref

const verifBoundName = 7
