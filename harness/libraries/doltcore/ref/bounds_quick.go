package ref

const verifBoundName = 6
