package ref

import (
	"github.com/dolthub/dolt/go/store/datas"
)

// verifNameRules is the documented rule set for branch names, written as independent predicates over the bytes
// (git's check-ref-format rules as restated in datas.validateDatasetIdComponent and ref.InvalidBranchNameRegex):
// non-empty; not "@", "HEAD", "-"; not 32 base32 characters; no empty component; no component starting with ".";
// no ".."; no "@{"; no control character, space, DEL or any of : ? [ \ ^ ~ *; ASCII only; not ending in ".";
// no component ending in ".lock".  Evaluated without branching: the result is one boolean term.
func verifNameRules(s string) bool {
	n := len(s)
	if n == 0 {
		return false
	}
	ok := true
	ok = verifAnd(ok, !verifStrEq(s, "@"))
	ok = verifAnd(ok, !verifStrEq(s, "HEAD"))
	ok = verifAnd(ok, !verifStrEq(s, "-"))
	if n == 32 {
		allHash := true
		for i := 0; i < n; i++ {
			allHash = verifAnd(allHash, verifOr(verifAnd(s[i] >= '0', s[i] <= '9'), verifAnd(s[i] >= 'a', s[i] <= 'v')))
		}
		ok = verifAnd(ok, !allHash)
	}
	ok = verifAnd(ok, s[0] != '/')
	ok = verifAnd(ok, s[n-1] != '/')
	ok = verifAnd(ok, s[0] != '.')
	ok = verifAnd(ok, s[n-1] != '.')
	for i := 0; i < n; i++ {
		b := s[i]
		ok = verifAnd(ok, b >= 0x20)
		ok = verifAnd(ok, b < 0x7f)
		ok = verifAnd(ok, !verifIn(b, " :?[\\^~*"))
		if i+1 < n {
			ok = verifAnd(ok, !verifAnd(b == '/', s[i+1] == '/'))
			ok = verifAnd(ok, !verifAnd(b == '/', s[i+1] == '.'))
			ok = verifAnd(ok, !verifAnd(b == '.', s[i+1] == '.'))
			ok = verifAnd(ok, !verifAnd(b == '@', s[i+1] == '{'))
		}
		// a component ending in ".lock": ".lock" followed by "/" or the end
		if i+5 <= n {
			lock := verifStrEq(s[i:i+5], ".lock")
			if i+5 == n {
				ok = verifAnd(ok, !lock)
			} else {
				ok = verifAnd(ok, !verifAnd(lock, s[i+5] == '/'))
			}
		}
	}
	return ok
}

// verifNameBytes: every ASCII byte value, plus three non-ASCII representatives (the two bytes of U+00E9 and the
// invalid byte 0xFF) so that multi-byte, truncated and invalid UTF-8 sequences all occur.
func verifNameBytes(n int) []byte {
	b := verifNondetBytes("name", n)
	for i := range b {
		verifAssume(verifOr(b[i] < 0x80, verifIn(b[i], "\xc3\xa9\xff")))
	}
	return b
}

// H-C44-branchname: IsValidBranchName accepts exactly the documented rule set, for every string of up to
// verifBoundName bytes over the alphabet of verifNameBytes.
func verifH_C44_branchname() {
	verifPanicIsViolation()
	verifUnwind(64)
	n := verifNondetInt("n")
	verifAssume(0 <= n)
	verifAssume(n <= verifBoundName)
	n = verifConcrete(n, 64)
	s := string(verifNameBytes(n))
	got := IsValidBranchName(s)
	want := verifNameRules(s)
	verifAssert(got == want, "accepted-iff-rules-hold")
	verifCover(got, "some-name-accepted")
	verifReach("end")
}

// H-C44-datasetid: ValidateDatasetId (used for every dataset id, including tags and working sets) agrees with the
// rule set except for the rules that only the branch-name layer adds (exact names HEAD and -, commit hashes, empty
// components).
func verifH_C44_datasetid() {
	verifPanicIsViolation()
	verifUnwind(64)
	n := verifNondetInt("n")
	verifAssume(1 <= n)
	verifAssume(n <= verifBoundName)
	n = verifConcrete(n, 64)
	s := string(verifNameBytes(n))
	err := datas.ValidateDatasetId(s)
	rules := verifNameRules(s)
	// whatever the full rule set accepts, the dataset layer accepts
	verifAssert(verifImplies(rules, err == nil), "rules-imply-valid-dataset-id")
	// and it never accepts the forbidden characters or sequences
	bad := false
	for i := 0; i < n; i++ {
		b := s[i]
		bad = verifOr(bad, b < 0x20)
		bad = verifOr(bad, b >= 0x7f)
		bad = verifOr(bad, verifIn(b, " :?[\\^~*"))
		if i+1 < n {
			bad = verifOr(bad, verifAnd(b == '.', s[i+1] == '.'))
			bad = verifOr(bad, verifAnd(b == '@', s[i+1] == '{'))
		}
	}
	verifAssert(verifImplies(bad, err != nil), "forbidden-constructs-rejected")
	verifReach("end")
}

// H-C44-hashname: a 32-character name over the commit-hash alphabet is rejected as a branch name, a 33-character
// one and one with a character outside the alphabet are not rejected for that reason.
func verifH_C44_hashname() {
	verifPanicIsViolation()
	verifUnwind(80)
	n := verifConcrete(verifIteInt(verifNondetBool("long"), 33, 32), 2)
	b := verifNondetBytes("name", n)
	for i := range b {
		verifAssume(verifIn(b[i], "0av9w"))
	}
	s := string(b)
	verifAssert(IsValidBranchName(s) == verifNameRules(s), "accepted-iff-rules-hold")
	verifCover(IsValidBranchName(s), "accepted")
	verifCover(!IsValidBranchName(s), "rejected")
	verifReach("end")
}

// H-C44-tagname: IsValidTagName accepts exactly the documented rule set restricted to the constructs its regular
// expression names (it does not go through ValidateDatasetId).
func verifH_C44_tagname() {
	verifPanicIsViolation()
	verifUnwind(64)
	n := verifNondetInt("n")
	verifAssume(0 <= n)
	verifAssume(n <= verifBoundName)
	n = verifConcrete(n, 64)
	s := string(verifNameBytes(n))
	got := IsValidTagName(s)
	// every name the full rule set accepts is a valid tag name
	verifAssert(verifImplies(verifNameRules(s), got), "rules-imply-valid-tag")
	// names with the listed constructs are rejected
	if n > 0 {
		bad := false
		bad = verifOr(bad, s[0] == '/')
		bad = verifOr(bad, s[n-1] == '/')
		for i := 0; i+1 < n; i++ {
			bad = verifOr(bad, verifAnd(s[i] == '/', s[i+1] == '/'))
			bad = verifOr(bad, verifAnd(s[i] == '.', s[i+1] == '.'))
			bad = verifOr(bad, verifAnd(s[i] == '@', s[i+1] == '{'))
		}
		verifAssert(verifImplies(bad, !got), "forbidden-constructs-rejected")
	} else {
		verifAssert(!got, "empty-rejected")
	}
	verifReach("end")
}
