package binlogreplication

const verifBoundTimeMax = ((838*60+59)*60+59)*1000000 + 999999
