package binlogreplication

const verifBoundTimeMax = ((838*60+59)*60+59)*1000000 + 999999

// JSON documents: as quick with one more length class each
const verifBoundJSONMembers = 2
const verifBoundJSONDepth = 1

var verifBoundJSONKeyLens = []int{0, 1, 255, 256}
var verifBoundJSONStrLens = []int{0, 1, 127, 128}
