package binlogreplication

import (
	"github.com/dolthub/dolt/go/libraries/doltcore/schema"
	"github.com/dolthub/dolt/go/store/pool"
	"github.com/dolthub/dolt/go/store/types"
	"github.com/dolthub/dolt/go/store/val"
)

// H-C40-row-nulls: a row of table t(pk BIGINT PRIMARY KEY, a BIGINT NULL, b BIGINT NULL) with a symbolic NULL pattern
// and symbolic values, through the real serializeRowToBinlogBytes (column iteration over key and value tuples, type
// serializer lookup, NULL handling): the NULL bitmap has bit i set exactly when column i is NULL, and the row image is
// the little-endian encodings of the non-NULL columns in column order, nothing for the NULL ones.
func verifH_C40_row_nulls() {
	verifPanicIsViolation()
	sch := schema.MustSchemaFromCols(schema.NewColCollection(
		schema.NewColumn("pk", 1, types.IntKind, true, schema.NotNullConstraint{}),
		schema.NewColumn("a", 2, types.IntKind, false),
		schema.NewColumn("b", 3, types.IntKind, false)))
	bp := pool.NewBuffPool()
	keyDesc := val.NewTupleDescriptor(val.Type{Enc: val.Int64Enc})
	valDesc := val.NewTupleDescriptor(val.Type{Enc: val.Int64Enc, Nullable: true}, val.Type{Enc: val.Int64Enc, Nullable: true})
	pk, a, b := verifNondetI64("pk"), verifNondetI64("a"), verifNondetI64("b")
	aNull, bNull := verifNondetBool("a-null"), verifNondetBool("b-null")
	kb := val.NewTupleBuilder(keyDesc, nil)
	kb.PutInt64(0, pk)
	key, err := kb.Build(nil, bp)
	verifAssert(err == nil, "key-built")
	vb := val.NewTupleBuilder(valDesc, nil)
	if !aNull {
		vb.PutInt64(0, a)
	}
	if !bNull {
		vb.PutInt64(1, b)
	}
	value, err := vb.Build(nil, bp)
	verifAssert(err == nil, "value-built")
	data, nulls, err := serializeRowToBinlogBytes(nil, sch, sch, []byte(key), []byte(value), nil)
	verifAssert(err == nil, "serialize-ok")
	if err != nil {
		return
	}
	verifAssert(!nulls.Bit(0), "pk-not-null")
	verifAssert(nulls.Bit(1) == aNull, "null-bit-of-a")
	verifAssert(nulls.Bit(2) == bNull, "null-bit-of-b")
	want := 8
	if !aNull {
		want += 8
	}
	if !bNull {
		want += 8
	}
	verifAssert(len(data) == want, "row-image-holds-exactly-the-non-null-columns")
	if len(data) != want {
		return
	}
	verifAssert(verifLE(data, 8, true) == pk, "pk-value")
	off := 8
	if !aNull {
		verifAssert(verifLE(data[off:], 8, true) == a, "a-value")
		off += 8
	}
	if !bNull {
		verifAssert(verifLE(data[off:], 8, true) == b, "b-value")
	}
	verifReach("end")
}
