package binlogreplication

import (
	"context"
	"time"
)

// Reference decoder of MySQL's TIME2 binary format with 6 fractional digits (MySQL my_time.cc,
// my_time_packed_from_binary / TIME_from_longlong_time_packed): the 6 bytes are a big-endian integer V; the packed
// value is V - 0x800000000000 (signed); its magnitude is (hms << 24) + microseconds with hms = hour<<12 | minute<<6 |
// second.
func verifDecodeTime2(b []byte) (neg bool, h, m, s, usec int64) {
	var v int64
	for i := 0; i < 6; i++ {
		v = v<<8 | int64(b[i])
	}
	packed := v - 0x800000000000
	neg = packed < 0
	if neg {
		packed = -packed
	}
	hms := packed >> 24
	usec = packed & 0xffffff
	h, m, s = (hms>>12)&0x3ff, (hms>>6)&0x3f, hms&0x3f
	return
}

// H-C40-time: every TIME value in MySQL's range (-838:59:59.999999 .. 838:59:59.999999, microsecond precision) encoded
// by the real timeSerializer decodes, with a standard TIME2 decoder and the emitted metadata (precision 6), to the same
// sign, hour, minute, second and microsecond. The value is given by its fields (all symbolic, full range); the
// quotients and remainders the serializer computes from the microsecond count are tied to the fields by division
// lemmas that the solver proves first (verifDivHint), so the remaining question is purely the format: packing,
// negation of the packed integer, offset, byte order.
func verifH_C40_time() {
	verifPanicIsViolation()
	neg := verifNondetBool("negative")
	h := verifNondetI64("hour")
	m := verifNondetI64("minute")
	s := verifNondetI64("second")
	us := verifNondetI64("microsecond")
	verifAssume(verifAnd(0 <= h, h <= 838))
	verifAssume(verifAnd(0 <= m, m <= 59))
	verifAssume(verifAnd(0 <= s, s <= 59))
	verifAssume(verifAnd(0 <= us, us <= 999999))
	mins := h*60 + m
	secs := mins*60 + s
	mag := secs*1000000 + us
	verifDivHint(mag, 1000000, secs, us)
	verifDivHint(secs, 60*60, h, m*60+s)
	verifDivHint(secs, 60, mins, s)
	verifDivHint(mins, 60, h, m)
	d := mag
	if neg {
		d = -mag
	}
	data, err := timeSerializer{}.serialize(context.Background(), nil, time.UnixMicro(d), nil)
	verifAssert(err == nil, "serialize-ok")
	verifAssert(len(data) == 6, "six-bytes-for-precision-6")
	if err != nil || len(data) != 6 {
		return
	}
	gneg, gh, gm, gs, gus := verifDecodeTime2(data)
	verifObserve("hour", uint64(gh))
	verifObserve("second", uint64(gs))
	verifObserve("usec", uint64(gus))
	verifAssert(gneg == verifAnd(neg, mag != 0), "sign")
	verifAssert(gus == us, "microseconds")
	verifAssert(gs == s, "seconds")
	verifAssert(gm == m, "minutes")
	verifAssert(gh == h, "hours")
	verifCover(verifAnd(neg, verifAnd(s == 59, us > 0)), "negative-with-fraction-at-second-59")
	verifReach("end")
}
