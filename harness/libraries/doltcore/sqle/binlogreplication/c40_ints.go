package binlogreplication

import (
	"context"

	"github.com/dolthub/go-mysql-server/sql"
	"github.com/dolthub/vitess/go/vt/proto/query"
)

// verifType stands in for a go-mysql-server column type: Type() is the wire type, Convert is the identity (the values
// handed to the serializers come out of Dolt's storage already in the column's Go type).
type verifSQLType = sql.Type

type verifType struct {
	verifSQLType
	t query.Type
}

func (v verifType) Type() query.Type { return v.t }
func (v verifType) Convert(ctx context.Context, x interface{}) (interface{}, sql.ConvertInRange, error) {
	return x, sql.InRange, nil
}

// verifLE reads n little-endian bytes; signed values are sign-extended from n bytes (MEDIUMINT: 3 bytes).
func verifLE(b []byte, n int, signed bool) int64 {
	var u uint64
	for i := 0; i < n; i++ {
		u |= uint64(b[i]) << (8 * uint(i))
	}
	if signed && n < 8 && u&(1<<(8*uint(n)-1)) != 0 {
		u |= ^uint64(0) << (8 * uint(n))
	}
	return int64(u)
}

// H-C40-integers: every value of every integer column type encoded by the real integerSerializer decodes as MySQL's row
// format says (little-endian, TINY 1 / SHORT 2 / INT24 3 / LONG 4 / LONGLONG 8 bytes, signedness from the column) to
// the stored value. MEDIUMINT over its documented range.
func verifH_C40_integers() {
	verifPanicIsViolation()
	ctx := context.Background()
	which := verifConcrete(verifNondetIntRange("type", 0, 9), 16)
	x := verifNondetU64("value")
	var typ query.Type
	var val interface{}
	n, signed := 0, false
	var want int64
	switch which {
	case 0:
		typ, val, n, signed, want = query.Type_INT8, int8(x), 1, true, int64(int8(x))
	case 1:
		typ, val, n, signed, want = query.Type_UINT8, uint8(x), 1, false, int64(uint8(x))
	case 2:
		typ, val, n, signed, want = query.Type_INT16, int16(x), 2, true, int64(int16(x))
	case 3:
		typ, val, n, signed, want = query.Type_UINT16, uint16(x), 2, false, int64(uint16(x))
	case 4:
		v := int32(x)
		verifAssume(verifAnd(v >= -8388608, v <= 8388607))
		typ, val, n, signed, want = query.Type_INT24, v, 3, true, int64(v)
	case 5:
		v := uint32(x)
		verifAssume(v <= 16777215)
		typ, val, n, signed, want = query.Type_UINT24, v, 3, false, int64(v)
	case 6:
		typ, val, n, signed, want = query.Type_INT32, int32(x), 4, true, int64(int32(x))
	case 7:
		typ, val, n, signed, want = query.Type_UINT32, uint32(x), 4, false, int64(uint32(x))
	case 8:
		typ, val, n, signed, want = query.Type_INT64, int64(x), 8, true, int64(x)
	case 9:
		typ, val, n, signed, want = query.Type_UINT64, x, 8, false, int64(x)
	}
	data, err := integerSerializer{}.serialize(ctx, verifType{t: typ}, val, nil)
	verifAssert(err == nil, "serialize-ok")
	verifAssert(len(data) == n, "width-of-the-column-type")
	if err != nil || len(data) != n {
		return
	}
	got := verifLE(data, n, signed)
	verifObserve("decoded", uint64(got))
	verifAssert(got == want, "decodes-to-the-stored-value")
	verifReach("end")
}

// H-C40-year: YEAR columns: MySQL stores one byte, 0 for the zero year 0000 and year-1900 otherwise; Dolt stores the
// zero year as 0 and other years as themselves (1901..2155).
func verifH_C40_year() {
	verifPanicIsViolation()
	y := verifNondetI16("year")
	verifAssume(verifOr(y == 0, verifAnd(y >= 1901, y <= 2155)))
	data, err := yearSerializer{}.serialize(context.Background(), verifType{t: query.Type_YEAR}, y, nil)
	verifAssert(err == nil, "serialize-ok")
	verifAssert(len(data) == 1, "one-byte")
	if err != nil || len(data) != 1 {
		return
	}
	got := int16(0)
	if data[0] != 0 {
		got = 1900 + int16(data[0])
	}
	verifObserve("decoded", uint64(got))
	verifAssert(got == y, "decodes-to-the-stored-year")
	verifCover(y == 0, "zero-year")
	verifReach("end")
}
