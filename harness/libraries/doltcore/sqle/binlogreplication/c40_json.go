package binlogreplication

import (
	"context"
	"math"

	"github.com/dolthub/go-mysql-server/sql"
)

type verifJSONWrapperIface = sql.JSONWrapper

// verifJSONDoc: a stored JSON document as the serializer sees it: ToInterface returns the Go value.
type verifJSONDoc struct {
	verifJSONWrapperIface
	v any
}

func (d verifJSONDoc) ToInterface(ctx context.Context) (any, error) { return d.v, nil }

// verifFilled: n bytes, all zero except a first byte that tells values apart.
func verifFilled(n int, first byte) string {
	b := make([]byte, n)
	if n > 0 {
		b[0] = first
	}
	return string(b)
}

func verifJSONScalar(tag string) any {
	switch verifConcrete(verifNondetIntRange(tag+"-kind", 0, 3), 8) {
	case 0:
		return nil
	case 1:
		return verifNondetBool(tag + "-bool")
	case 2:
		return math.Float64frombits(verifNondetU64(tag + "-bits"))
	}
	lens := verifBoundJSONStrLens
	n := lens[verifConcrete(verifNondetIntRange(tag+"-strlen", 0, len(lens)-1), 16)]
	return verifFilled(n, verifNondetU8(tag+"-byte"))
}

func verifJSONContainerOf(tag string, depth int) any {
	k := verifConcrete(verifNondetIntRange(tag+"-count", 0, verifBoundJSONMembers), 8)
	if depth == 0 && k > 1 {
		k = 1
	}
	isObj := verifConcrete(verifNondetIntRange(tag+"-object", 0, 1), 4) == 1
	elem := func(i int) any {
		t := tag + "." + string(rune('0'+i))
		if depth > 0 && verifConcrete(verifNondetIntRange(t+"-nested", 0, 1), 4) == 1 {
			return verifJSONContainerOf(t, depth-1)
		}
		return verifJSONScalar(t)
	}
	if !isObj {
		arr := make([]any, 0, k)
		for i := 0; i < k; i++ {
			arr = append(arr, elem(i))
		}
		return arr
	}
	obj := map[string]any{}
	lens := verifBoundJSONKeyLens
	for i := 0; i < k; i++ {
		n := 1
		if depth > 0 {
			// key lengths vary in the outer container only
			n = lens[verifConcrete(verifNondetIntRange(tag+"."+string(rune('0'+i))+"-keylen", 0, len(lens)-1), 16)]
		}
		obj[verifFilled(n, byte('a'+i))] = elem(i)
	}
	return obj
}

func verifRd(b []byte, off int, large bool) (uint32, bool) {
	w := 2
	if large {
		w = 4
	}
	if off < 0 || off+w > len(b) {
		return 0, false
	}
	v := uint32(b[off]) | uint32(b[off+1])<<8
	if large {
		v |= uint32(b[off+2])<<16 | uint32(b[off+3])<<24
	}
	return v, true
}

// verifJSONValue: reference decoder of MySQL's binary JSON (json_binary.h) for the value types Dolt emits, checking
// every count, size, offset and length field the format defines against the bytes actually present, as MySQL's own
// parser does. |b| is what is available to the value: from its offset to the end of the enclosing container.
func verifJSONValue(typ byte, b []byte, top bool) (any, bool) {
	switch typ {
	case jsonTypeSmallObject, jsonTypeLargeObject, jsonTypeSmallArray, jsonTypeLargeArray:
		large := typ == jsonTypeLargeObject || typ == jsonTypeLargeArray
		isObj := typ == jsonTypeSmallObject || typ == jsonTypeLargeObject
		w := 2
		if large {
			w = 4
		}
		count32, ok1 := verifRd(b, 0, large)
		size32, ok2 := verifRd(b, w, large)
		if !ok1 || !ok2 {
			return nil, false
		}
		count, size := int(count32), int(size32)
		if size > len(b) || (top && size != len(b)) {
			return nil, false
		}
		b = b[:size]
		keyEntry := 0
		if isObj {
			keyEntry = w + 2
		}
		header := 2*w + count*(keyEntry+1+w)
		if header > size {
			return nil, false
		}
		var arr []any
		var obj map[string]any
		if isObj {
			obj = map[string]any{}
		} else {
			arr = make([]any, 0, count)
		}
		for i := 0; i < count; i++ {
			e := 2*w + count*keyEntry + i*(1+w)
			vt := b[e]
			var v any
			if vt == jsonTypeLiteral {
				lit, _ := verifRd(b, e+1, large)
				var ok bool
				v, ok = verifJSONLiteral(lit)
				if !ok {
					return nil, false
				}
			} else {
				off32, _ := verifRd(b, e+1, large)
				off := int(off32)
				if off < header || off >= size {
					return nil, false
				}
				var ok bool
				v, ok = verifJSONValue(vt, b[off:size], false)
				if !ok {
					return nil, false
				}
			}
			if !isObj {
				arr = append(arr, v)
				continue
			}
			ke := 2*w + i*keyEntry
			koff32, _ := verifRd(b, ke, large)
			klen32, _ := verifRd(b, ke+w, false)
			koff, klen := int(koff32), int(klen32)
			if koff < header || koff+klen > size {
				return nil, false
			}
			key := string(b[koff : koff+klen])
			if _, dup := obj[key]; dup {
				return nil, false
			}
			obj[key] = v
		}
		if isObj {
			return obj, true
		}
		return arr, true
	case jsonTypeLiteral:
		if len(b) < 1 {
			return nil, false
		}
		return verifJSONLiteral(uint32(b[0]))
	case jsonTypeDouble:
		if len(b) < 8 {
			return nil, false
		}
		var bits uint64
		for i := 0; i < 8; i++ {
			bits |= uint64(b[i]) << (8 * uint(i))
		}
		return math.Float64frombits(bits), true
	case jsonTypeString:
		n, used := 0, 0
		for {
			if used >= len(b) || used >= 5 {
				return nil, false
			}
			c := b[used]
			n |= int(c&0x7f) << (7 * uint(used))
			used++
			if c&0x80 == 0 {
				break
			}
		}
		if used+n > len(b) {
			return nil, false
		}
		return string(b[used : used+n]), true
	}
	return nil, false
}

func verifJSONLiteral(v uint32) (any, bool) {
	switch v {
	case uint32(jsonLiteralValueNull):
		return nil, true
	case uint32(jsonLiteralValueTrue):
		return true, true
	case uint32(jsonLiteralValueFalse):
		return false, true
	}
	return nil, false
}

func verifJSONEq(a, b any) bool {
	switch x := a.(type) {
	case nil:
		return b == nil
	case bool:
		y, ok := b.(bool)
		return ok && x == y
	case float64:
		y, ok := b.(float64)
		return ok && math.Float64bits(x) == math.Float64bits(y)
	case string:
		y, ok := b.(string)
		return ok && x == y
	case []any:
		y, ok := b.([]any)
		if !ok || len(x) != len(y) {
			return false
		}
		for i := range x {
			if !verifJSONEq(x[i], y[i]) {
				return false
			}
		}
		return true
	case map[string]any:
		y, ok := b.(map[string]any)
		if !ok || len(x) != len(y) {
			return false
		}
		for k, v := range x {
			w, has := y[k]
			if !has || !verifJSONEq(v, w) {
				return false
			}
		}
		return true
	}
	return false
}

// H-C40-json: every JSON document of the bounded shape (see bounds) encoded by the real encodeJsonDoc parses, with a
// reference parser of MySQL's binary JSON format that checks every count, size, offset and length field against the
// bytes present, to the same document.
func verifH_C40_json() {
	verifPanicIsViolation()
	doc := verifJSONContainerOf("doc", verifBoundJSONDepth)
	data, err := encodeJsonDoc(context.Background(), verifJSONDoc{v: doc})
	verifAssert(err == nil, "encode-ok")
	if err != nil || len(data) < 1 {
		return
	}
	verifObserve("encoded-length", uint64(len(data)))
	got, ok := verifJSONValue(data[0], data[1:], true)
	verifAssert(ok, "well-formed-binary-json")
	if !ok {
		return
	}
	verifAssert(verifJSONEq(doc, got), "decodes-to-the-stored-document")
	verifReach("end")
}

// the 64KB boundary of the small container format, and the two/three byte string length boundary
var verifJSONBigKeyLens = []int{1, 65520, 65524, 65535}
var verifJSONBigStrLens = []int{1, 16383, 16384, 65524, 65528, 70000}

// H-C40-json-large: containers at the 64KB limit of the small format: an array or object of two members, one small
// (a literal or a one-byte string) and one big (key of length 1/65520/65524/65535, value a literal or a string of length
// 1/16383/16384/65524/65528/70000), in either order.
func verifH_C40_json_large() {
	verifPanicIsViolation()
	isObj := verifConcrete(verifNondetIntRange("object", 0, 1), 4) == 1
	bigFirst := verifConcrete(verifNondetIntRange("big-first", 0, 1), 4) == 1
	var small any = nil
	if verifConcrete(verifNondetIntRange("small-kind", 0, 1), 4) == 1 {
		small = verifFilled(1, verifNondetU8("small-byte"))
	}
	var big any = verifNondetBool("big-bool")
	if c := verifConcrete(verifNondetIntRange("big-strlen", 0, len(verifJSONBigStrLens)), 16); c > 0 {
		big = verifFilled(verifJSONBigStrLens[c-1], verifNondetU8("big-byte"))
	}
	var doc any
	if isObj {
		kl := verifJSONBigKeyLens[verifConcrete(verifNondetIntRange("big-keylen", 0, len(verifJSONBigKeyLens)-1), 16)]
		// keys sort by bytes: the big member's key sorts first or last
		bk, sk := byte('a'), byte('b')
		if !bigFirst {
			bk, sk = 'b', 'a'
		}
		doc = map[string]any{verifFilled(kl, bk): big, verifFilled(1, sk): small}
	} else if bigFirst {
		doc = []any{big, small}
	} else {
		doc = []any{small, big}
	}
	data, err := encodeJsonDoc(context.Background(), verifJSONDoc{v: doc})
	verifAssert(err == nil, "encode-ok")
	if err != nil || len(data) < 1 {
		return
	}
	verifObserve("encoded-length", uint64(len(data)))
	verifObserve("container-type", uint64(data[0]))
	got, ok := verifJSONValue(data[0], data[1:], true)
	verifAssert(ok, "well-formed-binary-json")
	if !ok {
		return
	}
	verifAssert(verifJSONEq(doc, got), "decodes-to-the-stored-document")
	verifReach("end")
}
