package binlogreplication

// |TIME| < 2 minutes in quick (covers the seconds = 59 borrow and the minute carry)
const verifBoundTimeMax = 2*60*1000000 - 1
