package binlogreplication

// |TIME| < 2 minutes in quick (covers the seconds = 59 borrow and the minute carry)
const verifBoundTimeMax = 2*60*1000000 - 1

// JSON documents: containers of up to 2 members, one level of nesting, key lengths and string lengths from these
// classes (the one- and two-byte length boundaries)
const verifBoundJSONMembers = 2
const verifBoundJSONDepth = 1

var verifBoundJSONKeyLens = []int{1, 255, 256}
var verifBoundJSONStrLens = []int{0, 127, 128}
