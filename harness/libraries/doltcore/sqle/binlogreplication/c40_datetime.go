package binlogreplication

import (
	"context"
	"time"

	"github.com/dolthub/go-mysql-server/sql"
	"github.com/dolthub/vitess/go/vt/proto/query"
)

type verifDatetimeIface = sql.DatetimeType

// verifDatetimeType: a DATETIME(p) column: Convert is the identity, Precision is p.
type verifDatetimeType struct {
	verifDatetimeIface
	p int
}

func (v verifDatetimeType) Type() query.Type { return query.Type_DATETIME }
func (v verifDatetimeType) Convert(ctx context.Context, x interface{}) (interface{}, sql.ConvertInRange, error) {
	return x, sql.InRange, nil
}
func (v verifDatetimeType) Precision() int { return v.p }

var _ = time.UTC

// H-C40-datetime: every DATETIME(p) value (year 0..9999, month 1..12, day 1..31, time of day, fraction representable at
// precision p, p = 0..6 symbolic) encoded by the real datetimeSerializer decodes, with the DATETIME2 layout of the MySQL
// documentation (5 bytes big-endian: 0x8000000000 + ((year*13+month) << 22 | day << 17 | hour << 12 | minute << 6 |
// second), then 0..3 fraction bytes by precision), to the same fields.
func verifH_C40_datetime() {
	verifPanicIsViolation()
	y := verifNondetIntRange("year", 0, 9999)
	mo := verifNondetIntRange("month", 1, 12)
	d := verifNondetIntRange("day", 1, 31)
	h := verifNondetIntRange("hour", 0, 23)
	mi := verifNondetIntRange("minute", 0, 59)
	s := verifNondetIntRange("second", 0, 59)
	p := verifConcrete(verifNondetIntRange("precision", 0, 6), 8)
	// the stored fraction has at most p digits: us = units * 10^(6-p)
	scale := []int{1000000, 100000, 10000, 1000, 100, 10, 1}[p]
	units := verifNondetIntRange("fraction-units", 0, 999999)
	verifAssume(units < 1000000/scale)
	us := units * scale
	tv := verifCivilTime(y, mo, d, h, mi, s, us*1000)
	data, err := datetimeSerializer{}.serialize(context.Background(), verifDatetimeType{p: p}, tv, nil)
	verifAssert(err == nil, "serialize-ok")
	fracBytes := (p + 1) / 2
	verifAssert(len(data) == 5+fracBytes, "length-by-precision")
	if err != nil || len(data) != 5+fracBytes {
		return
	}
	var v int64
	for i := 0; i < 5; i++ {
		v = v<<8 | int64(data[i])
	}
	ip := v - 0x8000000000
	ymd := ip >> 17
	ym := ymd >> 5
	gd := ymd & 31
	gy, gmo := ym/13, ym%13
	hms := ip & 0x1ffff
	gh, gmi, gs := hms>>12, (hms>>6)&63, hms&63
	var frac int64
	for i := 0; i < fracBytes; i++ {
		frac = frac<<8 | int64(data[5+i])
	}
	gus := frac
	switch fracBytes {
	case 1:
		gus = frac * 10000
	case 2:
		gus = frac * 100
	}
	verifObserve("year", uint64(gy))
	verifObserve("usec", uint64(gus))
	verifAssert(ip >= 0, "non-negative")
	verifAssert(gy == int64(y), "year")
	verifAssert(gmo == int64(mo), "month")
	verifAssert(gd == int64(d), "day")
	verifAssert(gh == int64(h), "hour")
	verifAssert(gmi == int64(mi), "minute")
	verifAssert(gs == int64(s), "second")
	verifAssert(gus == int64(us), "fraction")
	verifReach("end")
}
