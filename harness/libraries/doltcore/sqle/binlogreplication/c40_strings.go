package binlogreplication

import (
	"context"
	"math"

	"github.com/dolthub/go-mysql-server/sql"
	"github.com/dolthub/vitess/go/mysql"
	"github.com/dolthub/vitess/go/vt/proto/query"
)

type verifStringIface = sql.StringType

// verifStringType: a CHAR/VARCHAR/BINARY/VARBINARY/BLOB/TEXT column of a given maximum byte length; Convert is the
// identity.
type verifStringType struct {
	verifStringIface
	t   query.Type
	max int64
}

func (v verifStringType) Type() query.Type { return v.t }
func (v verifStringType) Convert(ctx context.Context, x interface{}) (interface{}, sql.ConvertInRange, error) {
	return x, sql.InRange, nil
}
func (v verifStringType) MaxByteLength() int64 { return v.max }

// H-C40-float: FLOAT is the 4 IEEE bytes little-endian, DOUBLE the 8; every bit pattern.
func verifH_C40_float() {
	verifPanicIsViolation()
	bits := verifNondetU64("bits")
	if verifConcrete(verifNondetIntRange("double", 0, 1), 4) == 0 {
		data, err := floatSerializer{}.serialize(context.Background(), verifType{t: query.Type_FLOAT32}, math.Float32frombits(uint32(bits)), nil)
		mt, md := floatSerializer{}.metadata(nil, verifType{t: query.Type_FLOAT32})
		verifAssert(err == nil && len(data) == 4 && mt == mysql.TypeFloat && md == 4, "float-four-bytes")
		if err != nil || len(data) != 4 {
			return
		}
		got := uint32(data[0]) | uint32(data[1])<<8 | uint32(data[2])<<16 | uint32(data[3])<<24
		verifObserve("decoded", uint64(got))
		verifAssert(got == uint32(bits), "float-bits")
	} else {
		data, err := floatSerializer{}.serialize(context.Background(), verifType{t: query.Type_FLOAT64}, math.Float64frombits(bits), nil)
		mt, md := floatSerializer{}.metadata(nil, verifType{t: query.Type_FLOAT64})
		verifAssert(err == nil && len(data) == 8 && mt == mysql.TypeDouble && md == 8, "double-eight-bytes")
		if err != nil || len(data) != 8 {
			return
		}
		var got uint64
		for i := 0; i < 8; i++ {
			got |= uint64(data[i]) << (8 * uint(i))
		}
		verifObserve("decoded", got)
		verifAssert(got == bits, "double-bits")
	}
	verifReach("end")
}

// H-C40-strings: CHAR / VARCHAR / BINARY / VARBINARY columns of every maximum byte length (VAR*: 1..65535, CHAR/BINARY:
// 1..1020) and values of 0..3 symbolic bytes: decoded as a replica does from the emitted metadata (VARCHAR: the
// metadata is the maximum length, CHAR: the maximum length is spread over the two metadata bytes; the length prefix is
// two bytes when the maximum exceeds 255, else one) the cell yields the stored bytes.
func verifH_C40_strings() {
	verifPanicIsViolation()
	which := verifConcrete(verifNondetIntRange("type", 0, 3), 4)
	typ := []query.Type{query.Type_VARCHAR, query.Type_VARBINARY, query.Type_CHAR, query.Type_BINARY}[which]
	limit := 65535
	if which >= 2 {
		limit = 1020
	}
	max := verifNondetIntRange("max-byte-length", 1, limit)
	n := verifConcrete(verifNondetIntRange("value-length", 0, 3), 4)
	verifAssume(n <= max)
	raw := verifNondetBytes("value", n)
	var value interface{} = raw
	if which == 0 || which == 2 {
		value = string(raw)
	}
	st := verifStringType{t: typ, max: int64(max)}
	ser := &stringSerializer{}
	data, err := ser.serialize(context.Background(), st, value, nil)
	verifAssert(err == nil, "serialize-ok")
	mt, md := ser.metadata(nil, st)
	// what a replica derives from the metadata
	decMax := 0
	if which < 2 {
		verifAssert(mt == mysql.TypeVarchar, "metadata-says-varchar")
		decMax = int(md)
	} else {
		verifAssert(mt == mysql.TypeString, "metadata-says-string")
		hi := byte(md >> 8)
		verifAssert(hi != mysql.TypeEnum && hi != mysql.TypeSet, "not-mistaken-for-enum-or-set")
		decMax = int((((md >> 4) & 0x300) ^ 0x300) + (md & 0xff))
	}
	verifObserve("decoded-max", uint64(decMax))
	verifAssert(decMax == max, "metadata-carries-the-maximum-length")
	prefix := 1
	if decMax > 255 {
		prefix = 2
	}
	verifAssert(len(data) == prefix+n, "cell-is-prefix-plus-value")
	if err != nil || len(data) != prefix+n {
		return
	}
	l := int(data[0])
	if prefix == 2 {
		l |= int(data[1]) << 8
	}
	verifAssert(l == n, "length-prefix")
	for i := 0; i < n; i++ {
		verifAssert(data[prefix+i] == raw[i], "value-bytes")
	}
	verifReach("end")
}

// H-C40-blob: BLOB/TEXT columns of every maximum byte length 1..2^32-1, values of 0..3 symbolic bytes: the metadata is
// the number of length bytes (1..4), the cell that many little-endian length bytes and the value.
func verifH_C40_blob() {
	verifPanicIsViolation()
	max := verifNondetU32("max-byte-length")
	verifAssume(max >= 1)
	n := verifConcrete(verifNondetIntRange("value-length", 0, 3), 4)
	raw := verifNondetBytes("value", n)
	st := verifStringType{t: query.Type_BLOB, max: int64(max)}
	data, err := blobSerializer{}.serialize(context.Background(), st, raw, nil)
	verifAssert(err == nil, "serialize-ok")
	mt, md := blobSerializer{}.metadata(nil, st)
	tt, td := textSerializer{}.metadata(nil, st)
	verifAssert(mt == mysql.TypeBlob && tt == mysql.TypeBlob && md == td, "metadata-says-blob")
	w := int(md)
	verifObserve("length-bytes", uint64(w))
	verifAssert(w >= 1 && w <= 4, "length-bytes-1-to-4")
	// the length bytes can hold every length the column allows, and no smaller width could
	verifAssert(w == 4 || uint64(max) < uint64(1)<<(8*uint(w&3)), "length-bytes-hold-the-maximum")
	verifAssert(w == 1 || uint64(max) >= uint64(1)<<(8*uint((w-1)&3)), "length-bytes-minimal")
	verifAssert(len(data) == w+n, "cell-is-length-plus-value")
	if err != nil || len(data) != w+n || w < 1 || w > 4 {
		return
	}
	l := 0
	for i := 0; i < w; i++ {
		l |= int(data[i]) << (8 * uint(i))
	}
	verifAssert(l == n, "length-prefix")
	for i := 0; i < n; i++ {
		verifAssert(data[w+i] == raw[i], "value-bytes")
	}
	verifReach("end")
}
