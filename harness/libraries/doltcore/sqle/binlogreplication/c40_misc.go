package binlogreplication

import (
	"context"
	"fmt"
	"time"

	"github.com/dolthub/go-mysql-server/sql"
	gmstypes "github.com/dolthub/go-mysql-server/sql/types"
	"github.com/dolthub/vitess/go/mysql"
	"github.com/dolthub/vitess/go/vt/proto/query"
)

// verifEnumType / verifSetType: natively the real go-mysql-server type with n generated members; under the symbolic
// executor a stand-in whose NumberOfElements is n and whose Convert is the identity (engine stub).
func verifEnumType(n int) gmstypes.EnumType {
	vals := make([]string, n)
	for i := range vals {
		vals[i] = fmt.Sprintf("v%d", i)
	}
	return gmstypes.MustCreateEnumType(vals, sql.Collation_Default).(gmstypes.EnumType)
}

func verifSetType(n int) gmstypes.SetType {
	vals := make([]string, n)
	for i := range vals {
		vals[i] = fmt.Sprintf("v%d", i)
	}
	return gmstypes.MustCreateSetType(vals, sql.Collation_Default).(gmstypes.SetType)
}

type verifBitIface = gmstypes.BitType

type verifBitType struct {
	verifBitIface
	bits uint8
}

func (v verifBitType) Type() query.Type { return query.Type_BIT }
func (v verifBitType) Convert(ctx context.Context, x interface{}) (interface{}, sql.ConvertInRange, error) {
	return x, sql.InRange, nil
}
func (v verifBitType) NumberOfBits() uint8 { return v.bits }

// H-C40-enum: an ENUM column with any number of members 1..65535 and any member index: the cell has the width the
// emitted column metadata announces (TypeString, real type ENUM in the high byte, pack length in the low byte: 1 byte
// up to 255 members, 2 above, as MySQL packs enums) and decodes little-endian to the stored index.
func verifH_C40_enum() {
	verifPanicIsViolation()
	n := verifNondetIntRange("members", 1, 65535)
	v := verifNondetU16("index")
	verifAssume(int(v) <= n)
	typ := verifEnumType(n)
	data, err := enumSerializer{}.serialize(context.Background(), typ, v, nil)
	verifAssert(err == nil, "serialize-ok")
	mt, md := enumSerializer{}.metadata(nil, typ)
	verifAssert(mt == mysql.TypeString && md>>8 == mysql.TypeEnum, "metadata-says-enum")
	width := int(md & 0xff)
	verifObserve("width", uint64(width))
	verifAssert(width == 1 || width == 2, "pack-length-1-or-2")
	verifAssert((width == 1) == (n <= 255), "one-byte-up-to-255-members")
	verifAssert(len(data) == width, "cell-has-the-width-the-metadata-announces")
	if err != nil || len(data) != width || width < 1 || width > 2 {
		return
	}
	got := uint16(data[0])
	if width == 2 {
		got |= uint16(data[1]) << 8
	}
	verifObserve("decoded", uint64(got))
	verifAssert(got == v, "decodes-to-the-stored-index")
	verifCover(n == 255, "255-members")
	verifCover(n == 256, "256-members")
	verifReach("end")
}

// H-C40-set: a SET column with 1..64 members and any bitmap over them: the cell has the width the metadata announces
// ((members+7)/8 bytes, little-endian) and decodes to the stored bitmap.
func verifH_C40_set() {
	verifPanicIsViolation()
	n := verifNondetIntRange("members", 1, 64)
	v := verifNondetU64("bitmap")
	verifAssume(verifOr(n == 64, v>>uint(n&63) == 0))
	typ := verifSetType(n)
	data, err := setSerializer{}.serialize(context.Background(), typ, v, nil)
	verifAssert(err == nil, "serialize-ok")
	mt, md := setSerializer{}.metadata(nil, typ)
	verifAssert(mt == mysql.TypeString && md>>8 == mysql.TypeSet, "metadata-says-set")
	width := int(md & 0xff)
	verifObserve("width", uint64(width))
	verifAssert(width == (n+7)/8, "pack-length-covers-the-members")
	verifAssert(len(data) == width, "cell-has-the-width-the-metadata-announces")
	if err != nil || len(data) != width || width < 1 || width > 8 {
		return
	}
	var got uint64
	for i := 0; i < width; i++ {
		got |= uint64(data[i]) << (8 * uint(i))
	}
	verifObserve("decoded", got)
	verifAssert(got == v, "decodes-to-the-stored-bitmap")
	verifReach("end")
}

// H-C40-bit: a BIT(n) column, n = 1..64, any value of n bits: the metadata carries n as (n/8)<<8 | n%8, the cell is
// (n+7)/8 bytes big-endian and decodes to the stored value.
func verifH_C40_bit() {
	verifPanicIsViolation()
	n := verifNondetIntRange("bits", 1, 64)
	v := verifNondetU64("value")
	verifAssume(verifOr(n == 64, v>>uint(n&63) == 0))
	typ := verifBitType{bits: uint8(n)}
	data, err := bitSerializer{}.serialize(context.Background(), typ, v, nil)
	verifAssert(err == nil, "serialize-ok")
	mt, md := bitSerializer{}.metadata(nil, typ)
	verifAssert(mt == mysql.TypeBit, "metadata-says-bit")
	nbits := int(md>>8)*8 + int(md&0xff)
	verifAssert(int(md&0xff) < 8, "bit-remainder-below-8")
	verifAssert(nbits == n, "metadata-carries-the-bit-count")
	width := (nbits + 7) / 8
	verifObserve("width", uint64(width))
	verifAssert(len(data) == width, "cell-has-the-width-the-metadata-announces")
	if err != nil || len(data) != width || width < 1 || width > 8 {
		return
	}
	var got uint64
	for i := 0; i < width; i++ {
		got = got<<8 | uint64(data[i])
	}
	verifObserve("decoded", got)
	verifAssert(got == v, "decodes-to-the-stored-value")
	verifReach("end")
}

// H-C40-date: DATE: 3 bytes little-endian, day in bits 0..4, month in bits 5..8, year above.
func verifH_C40_date() {
	verifPanicIsViolation()
	y := verifNondetIntRange("year", 0, 9999)
	mo := verifNondetIntRange("month", 1, 12)
	d := verifNondetIntRange("day", 1, 31)
	tv := verifCivilTime(y, mo, d, 0, 0, 0, 0)
	data, err := dateSerializer{}.serialize(context.Background(), verifType{t: query.Type_DATE}, tv, nil)
	verifAssert(err == nil, "serialize-ok")
	verifAssert(len(data) == 3, "three-bytes")
	if err != nil || len(data) != 3 {
		return
	}
	v := int(data[0]) | int(data[1])<<8 | int(data[2])<<16
	verifObserve("packed", uint64(v))
	verifAssert(v&31 == d, "day")
	verifAssert((v>>5)&15 == mo, "month")
	verifAssert(v>>9 == y, "year")
	verifReach("end")
}

// H-C40-timestamp: TIMESTAMP(p): 4 bytes big-endian seconds since the epoch (the whole unsigned 32-bit range), then
// 0..3 fraction bytes by precision as for DATETIME2.
func verifH_C40_timestamp() {
	verifPanicIsViolation()
	sec := verifNondetU32("seconds")
	p := verifConcrete(verifNondetIntRange("precision", 0, 6), 8)
	scale := []int{1000000, 100000, 10000, 1000, 100, 10, 1}[p]
	units := verifNondetIntRange("fraction-units", 0, 999999)
	verifAssume(units < 1000000/scale)
	us := units * scale
	tv := time.Unix(int64(sec), int64(us)*1000)
	data, err := timestampSerializer{}.serialize(context.Background(), verifDatetimeType{p: p}, tv, nil)
	verifAssert(err == nil, "serialize-ok")
	_, md := timestampSerializer{}.metadata(nil, verifDatetimeType{p: p})
	verifAssert(int(md) == p, "metadata-carries-the-precision")
	fracBytes := (p + 1) / 2
	verifAssert(len(data) == 4+fracBytes, "length-by-precision")
	if err != nil || len(data) != 4+fracBytes {
		return
	}
	got := uint32(data[0])<<24 | uint32(data[1])<<16 | uint32(data[2])<<8 | uint32(data[3])
	var frac int64
	for i := 0; i < fracBytes; i++ {
		frac = frac<<8 | int64(data[4+i])
	}
	gus := frac
	switch fracBytes {
	case 1:
		gus = frac * 10000
	case 2:
		gus = frac * 100
	}
	verifObserve("seconds", uint64(got))
	verifObserve("usec", uint64(gus))
	verifAssert(got == sec, "seconds")
	verifAssert(gus == int64(us), "fraction")
	verifReach("end")
}
