package kvexec

import (
	"context"
	"io"

	"github.com/dolthub/go-mysql-server/sql"
	"github.com/dolthub/go-mysql-server/sql/expression"
	gmstypes "github.com/dolthub/go-mysql-server/sql/types"

	"github.com/dolthub/dolt/go/libraries/doltcore/schema"
	"github.com/dolthub/dolt/go/libraries/doltcore/sqle/index"
	"github.com/dolthub/dolt/go/store/pool"
	"github.com/dolthub/dolt/go/store/types"
	"github.com/dolthub/dolt/go/store/val"
)

// verifEntries: the stored entries of a keyless table, as the clustered map's iterator yields them (one per distinct
// row, the multiplicity in the cardinality field).
type verifEntries struct {
	keys, vals []val.Tuple
	next       int
}

func (e *verifEntries) Next(ctx context.Context) (val.Tuple, val.Tuple, error) {
	if e.next >= len(e.keys) {
		return nil, nil, io.EOF
	}
	e.next++
	return e.keys[e.next-1], e.vals[e.next-1], nil
}

// H-C27-count: SELECT COUNT(*) / COUNT(a) / COUNT(b) over a keyless table t(a BIGINT, b BIGINT) reflects the
// multiplicities: up to 2 distinct stored rows, each with a symbolic multiplicity 1..3 and each column NULL or not
// (symbolic), read through the real keylessCardedMapIter and counted by the real countAggKvIter as built by
// newCountAggregationKvIter from the table's schema. The reference is the sum of the multiplicities of the rows whose
// counted column is not NULL.
func verifH_C27_count() {
	verifPanicIsViolation()
	sch := schema.MustSchemaFromCols(schema.NewColCollection(
		schema.NewColumn("a", 1, types.IntKind, false),
		schema.NewColumn("b", 2, types.IntKind, false)))
	valDesc := val.NewTupleDescriptor(val.Type{Enc: val.Uint64Enc}, val.Type{Enc: val.Int64Enc, Nullable: true}, val.Type{Enc: val.Int64Enc, Nullable: true})
	bld := val.NewTupleBuilder(valDesc, nil)
	bp := pool.NewBuffPool()
	n := verifConcrete(verifNondetIntRange("distinct-rows", 0, verifBoundCountRows), 4)
	which := verifConcrete(verifNondetIntRange("counted", 0, 2), 4) // 0: COUNT(*) (a literal), 1: COUNT(a), 2: COUNT(b)
	src := &verifEntries{}
	want := int64(0)
	for i := 0; i < n; i++ {
		tag := string(rune('0' + i))
		card := verifNondetIntRange("multiplicity-"+tag, 1, 3)
		aNull, bNull := verifNondetBool("a-null-"+tag), verifNondetBool("b-null-"+tag)
		bld.PutUint64(0, uint64(verifConcrete(card, 4)))
		if !aNull {
			bld.PutInt64(1, verifNondetI64("a-"+tag))
		}
		if !bNull {
			bld.PutInt64(2, verifNondetI64("b-"+tag))
		}
		v, err := bld.Build(context.Background(), bp)
		verifAssert(err == nil, "build-ok")
		key := make(val.Tuple, 18)
		key[0] = byte(i)
		src.keys = append(src.keys, key)
		src.vals = append(src.vals, v)
		if which == 0 || (which == 1 && !aNull) || (which == 2 && !bNull) {
			want += int64(card)
		}
	}
	var e sql.Expression
	switch which {
	case 0:
		e = expression.NewLiteral(int64(1), gmstypes.Int64)
	case 1:
		e = expression.NewGetField(0, gmstypes.Int64, "a", true)
	case 2:
		e = expression.NewGetField(1, gmstypes.Int64, "b", true)
	}
	iter, ok, err := newCountAggregationKvIter(nil, index.NewKeylessCardedMapIter(src), sch, e)
	verifAssert(verifAnd(ok, err == nil), "count-iterator-built")
	if !ok || err != nil {
		return
	}
	row, err := iter.Next(nil)
	verifAssert(err == nil, "next-ok")
	if err != nil || len(row) != 1 {
		return
	}
	got, isInt := row[0].(int64)
	verifAssert(isInt, "count-is-an-int64")
	verifObserve("count", uint64(got))
	verifAssert(got == want, "count-reflects-the-multiplicities")
	verifReach("end")
}
