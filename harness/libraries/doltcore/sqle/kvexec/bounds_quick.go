package kvexec

const verifBoundCountRows = 2
