package kvexec

const verifBoundCountRows = 3
