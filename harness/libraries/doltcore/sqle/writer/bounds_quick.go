package writer

const verifBoundOps = 2
