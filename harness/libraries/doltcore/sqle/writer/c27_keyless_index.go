package writer

import (
	"context"

	"github.com/dolthub/go-mysql-server/sql"

	"github.com/dolthub/dolt/go/store/val"
)

// H-C27-keyless-index: a keyless table t(a BIGINT NULL, b BIGINT) with KEY(a). The real prollyKeylessSecondaryWriter and
// the real prollyKeylessWriter (both over abstract dictionaries) run a symbolic sequence of inserts, deletes and
// updates of two distinct rows (values symbolic, a NULL or not) from a small starting multiset, the index writer before
// the table writer as the table writer calls them. After every step, for each row: the index holds the entry
// (a, row id) - built independently of the writer's builders - iff the row's multiplicity is positive: index lookups
// see a row exactly as long as a copy of it exists.
func verifH_C27_keyless_index() {
	verifPanicIsViolation()
	verifUnwind(128)
	ctx := context.Background()
	valDesc := val.NewTupleDescriptor(val.Type{Enc: val.Uint64Enc}, val.Type{Enc: val.Int64Enc, Nullable: true}, val.Type{Enc: val.Int64Enc, Nullable: true})
	keyDesc := val.NewTupleDescriptor(val.Type{Enc: val.Int64Enc, Nullable: true}, val.Type{Enc: val.Hash128Enc})
	prefixDesc := val.NewTupleDescriptor(val.Type{Enc: val.Int64Enc, Nullable: true})
	w := prollyKeylessWriter{
		name:   "t",
		mut:    verifNewMutableMap(val.KeylessTupleDesc, valDesc),
		valBld: val.NewTupleBuilder(valDesc, nil),
		valMap: val.NewIdentityOrdinalMapping(2),
	}
	sec := prollyKeylessSecondaryWriter{
		name:      "a",
		mut:       verifNewMutableMap(keyDesc, val.NewTupleDescriptor()),
		keyBld:    val.NewTupleBuilder(keyDesc, nil),
		prefixBld: val.NewTupleBuilder(prefixDesc, nil),
		primary:   w,
		keyMap:    val.OrdinalMapping{0},
	}
	var rows [2]sql.Row
	var aNull [2]bool
	var av, bv [2]int64
	for i := 0; i < 2; i++ {
		tag := string(rune('0' + i))
		aNull[i] = verifNondetBool("a-null-" + tag)
		av[i], bv[i] = verifNondetI64("a-"+tag), verifNondetI64("b-"+tag)
		if aNull[i] {
			rows[i] = sql.Row{nil, bv[i]}
		} else {
			rows[i] = sql.Row{av[i], bv[i]}
		}
	}
	sameA := verifOr(verifAnd(aNull[0], aNull[1]), verifAnd(!aNull[0], verifAnd(!aNull[1], av[0] == av[1])))
	verifAssume(!verifAnd(sameA, bv[0] == bv[1]))
	count := [2]int{}
	own := val.NewTupleBuilder(keyDesc, nil)
	check := func(tag string) {
		for i := 0; i < 2; i++ {
			hashID, _, err := w.tuplesFromRow(ctx, rows[i])
			verifAssert(err == nil, "tuples-from-row")
			if !aNull[i] {
				own.PutInt64(0, av[i])
			}
			own.PutHash128(1, hashID.GetField(0))
			key, err := own.Build(ctx, sharePool)
			verifAssert(err == nil, "key-built")
			found := false
			gerr := sec.mut.Get(ctx, key, func(k, v val.Tuple) error {
				if k != nil {
					found = true
				}
				return nil
			})
			verifAssert(gerr == nil, "get-ok")
			verifAssert(found == (count[i] > 0), tag+":index-entry-iff-row-present")
		}
	}
	init := [2]int{verifConcrete(verifNondetIntRange("initial-copies-of-row-0", 0, 2), 4), verifConcrete(verifNondetIntRange("initial-copies-of-row-1", 0, 1), 4)}
	for i := 0; i < 2; i++ {
		for c := 0; c < init[i]; c++ {
			verifAssert(sec.Insert(ctx, rows[i]) == nil, "setup:index-insert-ok")
			verifAssert(w.Insert(ctx, rows[i]) == nil, "setup:insert-ok")
			count[i]++
		}
	}
	check("setup")
	for step := 0; step < verifBoundOps; step++ {
		which := verifConcrete(verifNondetIntRange("row", 0, 1), 4)
		op := verifConcrete(verifNondetIntRange("op", 0, 2), 4) // 0 insert, 1 delete, 2 update to the other row
		if op != 0 && count[which] == 0 {
			// SQL DELETE / UPDATE only reach the writers for rows that exist
			continue
		}
		switch op {
		case 0:
			verifAssert(sec.Insert(ctx, rows[which]) == nil, "index-insert-ok")
			verifAssert(w.Insert(ctx, rows[which]) == nil, "insert-ok")
			count[which]++
		case 1:
			verifAssert(sec.Delete(ctx, rows[which]) == nil, "index-delete-ok")
			verifAssert(w.Delete(ctx, rows[which]) == nil, "delete-ok")
			count[which]--
		case 2:
			verifAssert(sec.Update(ctx, rows[which], rows[1-which]) == nil, "index-update-ok")
			verifAssert(w.Update(ctx, rows[which], rows[1-which]) == nil, "update-ok")
			count[which]--
			count[1-which]++
		}
		check("step")
	}
	verifCover(count[0] >= 2, "duplicate-rows")
	verifReach("end")
}
