package writer

import (
	"context"

	"github.com/dolthub/go-mysql-server/sql"

	"github.com/dolthub/dolt/go/store/prolly"
	"github.com/dolthub/dolt/go/store/prolly/tree"
	"github.com/dolthub/dolt/go/store/val"
)

// verifNewMutableMap: natively a real, empty mutable prolly map over an in-memory node store; under the symbolic
// executor (which intercepts this function by name) the abstract dictionary of DESIGN 4.4.
func verifNewMutableMap(keyDesc, valDesc *val.TupleDesc) *prolly.MutableMap {
	m, err := prolly.NewMapFromTuples(context.Background(), tree.NewTestNodeStore(), keyDesc, valDesc)
	if err != nil {
		panic(err)
	}
	return m.Mutate()
}

// H-C27-keyless-multiset: a table without a primary key is a multiset of rows. The real keyless writer
// (prollyKeylessWriter.Insert / Delete / Update, tuplesFromRow, HashTupleFromValue, ModifyKeylessCardinality) runs a
// symbolic sequence of inserts, deletes and updates of two rows, from an arbitrary small starting multiset, (one BIGINT column, symbolic values) over an abstract
// dictionary in place of the mutable prolly map; the reference model is a count per row. After every step, for each
// row: the map holds an entry for it iff its count is positive, the entry's cardinality field equals the count, and
// its column field equals the row's value (an insert of an existing row must not rewrite the stored fields, a delete
// must touch exactly the matched row).
func verifH_C27_keyless_multiset() {
	verifPanicIsViolation()
	verifUnwind(128)
	ctx := context.Background()
	valDesc := val.NewTupleDescriptor(val.Type{Enc: val.Uint64Enc}, val.Type{Enc: val.Int64Enc, Nullable: true})
	w := prollyKeylessWriter{
		name:   "t",
		mut:    verifNewMutableMap(val.KeylessTupleDesc, valDesc),
		valBld: val.NewTupleBuilder(valDesc, nil),
		valMap: val.NewIdentityOrdinalMapping(1),
	}
	rows := [2]int64{verifNondetI64("row-a"), verifNondetI64("row-b")}
	verifAssume(rows[0] != rows[1])
	count := [2]int{}
	check := func(tag string) {
		for i := 0; i < 2; i++ {
			hashID, _, err := w.tuplesFromRow(ctx, sql.Row{rows[i]})
			verifAssert(err == nil, "tuples-from-row")
			var stored val.Tuple
			found := false
			gerr := w.mut.Get(ctx, hashID, func(k, v val.Tuple) error {
				if k != nil {
					found, stored = true, v
				}
				return nil
			})
			verifAssert(gerr == nil, "get-ok")
			verifAssert(found == (count[i] > 0), tag+":row-present-iff-count-positive")
			if found {
				verifAssert(int(val.ReadKeylessCardinality(stored)) == count[i], tag+":cardinality-is-the-multiplicity")
				got, ok := valDesc.GetInt64(1, stored)
				verifAssert(verifAnd(ok, got == rows[i]), tag+":stored-fields-are-the-row")
			}
		}
	}
	// an arbitrary starting multiset: row a present 0..2 times, row b 0..1 times (put there by the writer itself)
	init := [2]int{verifConcrete(verifNondetIntRange("initial-copies-of-a", 0, 2), 4), verifConcrete(verifNondetIntRange("initial-copies-of-b", 0, 1), 4)}
	for i := 0; i < 2; i++ {
		for c := 0; c < init[i]; c++ {
			verifAssert(w.Insert(ctx, sql.Row{rows[i]}) == nil, "setup:insert-ok")
			count[i]++
		}
	}
	check("setup")
	for step := 0; step < verifBoundOps; step++ {
		which := verifConcrete(verifNondetIntRange("row", 0, 1), 4)
		op := verifConcrete(verifNondetIntRange("op", 0, 2), 4) // 0 insert, 1 delete, 2 update to the other row
		switch op {
		case 0:
			verifAssert(w.Insert(ctx, sql.Row{rows[which]}) == nil, "insert-ok")
			count[which]++
		case 1:
			verifAssert(w.Delete(ctx, sql.Row{rows[which]}) == nil, "delete-ok")
			if count[which] > 0 {
				count[which]--
			}
		case 2:
			verifAssert(w.Update(ctx, sql.Row{rows[which]}, sql.Row{rows[1-which]}) == nil, "update-ok")
			// SQL UPDATE of one matched copy: the writer is only called for rows that exist
			if count[which] > 0 {
				count[which]--
			}
			count[1-which]++
		}
		check("step")
	}
	verifObserve("count-a", uint64(count[0]))
	verifObserve("count-b", uint64(count[1]))
	verifCover(count[0] >= 2, "duplicate-rows")
	verifReach("end")
}
