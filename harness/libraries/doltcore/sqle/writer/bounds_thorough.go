package writer

const verifBoundOps = 3
