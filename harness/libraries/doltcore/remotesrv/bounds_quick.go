package remotesrv

const verifBoundPathLen = 4
