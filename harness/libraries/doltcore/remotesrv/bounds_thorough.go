package remotesrv

const verifBoundPathLen = 6
