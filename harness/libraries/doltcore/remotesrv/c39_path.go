package remotesrv

import (
	"net/http"
	"net/url"

	"github.com/sirupsen/logrus"

	"github.com/dolthub/dolt/go/libraries/utils/filesys"
)

type verifFilesysIface = filesys.Filesys

// verifFS: the handler's file system: Abs records what it is asked to resolve under the root (filesys.LocalFS joins
// it with the working directory); what it returns is a fixed, absent file, so that the handler's stat/open that follow
// have a concrete name in the file-system model.
type verifFS struct {
	verifFilesysIface
	asked []string
}

func (f *verifFS) Abs(p string) (string, error) {
	f.asked = append(f.asked, p)
	return verifFSRoot() + "/srv/absent", nil
}

type verifRW struct {
	code int
	hdr  http.Header
}

func (w *verifRW) Header() http.Header         { return w.hdr }
func (w *verifRW) Write(b []byte) (int, error) { return len(b), nil }
func (w *verifRW) WriteHeader(c int)           { w.code = c }

// verifConfined: a relative path stays under the directory it is joined to: it is not absolute and no component of it
// is "..".
func verifConfined(p string) bool {
	if len(p) > 0 && p[0] == '/' {
		return false
	}
	start := 0
	for i := 0; i <= len(p); i++ {
		if i == len(p) || p[i] == '/' {
			if i-start == 2 && p[start] == '.' && p[start+1] == '.' {
				return false
			}
			start = i + 1
		}
	}
	return true
}

const verifTableFileName = "0123456789abcdefghijklmnopqrstuv"

// H-C39-get-path-confined: a GET request to the file handler whose URL path is any string of up to
// verifBoundPathLen bytes over the alphabet { '/', '.', 'a', '\\' } followed by "/" and a valid table file name (the
// handler rejects every other last component), through the real filehandler.ServeHTTP (identity sealer, as when
// sealing is off or after a successful unseal): whatever the handler resolves against its root - and goes on to stat
// and open - has no ".." component and is not absolute, or the request is rejected with 400 before touching the file
// system.
func verifH_C39_get_path_confined() {
	verifPanicIsViolation()
	verifUnwind(256)
	n := verifConcrete(verifNondetIntRange("prefix-length", 0, verifBoundPathLen), 16)
	raw := verifNondetBytes("prefix", n)
	for i := 0; i < n; i++ {
		verifAssume(verifOr(verifOr(raw[i] == '/', raw[i] == '.'), verifOr(raw[i] == 'a', raw[i] == '\\')))
	}
	path := string(raw) + "/" + verifTableFileName
	vfs := &verifFS{}
	rw := &verifRW{hdr: http.Header{}}
	fh := filehandler{fs: vfs, sealer: identitySealer{}, lgr: logrus.NewEntry(logrus.New())}
	req := &http.Request{Method: http.MethodGet, URL: &url.URL{Path: path}, Header: http.Header{}, RequestURI: "/x"}
	fh.ServeHTTP(rw, req)
	verifObserve("status", uint64(rw.code))
	for _, p := range vfs.asked {
		verifAssert(verifConfined(p), "resolved-path-stays-under-the-root")
	}
	verifAssert(len(vfs.asked) <= 1, "one-file-per-request")
	if len(vfs.asked) == 0 {
		verifAssert(rw.code == http.StatusBadRequest, "rejected-requests-answer-400")
	}
	verifCover(len(vfs.asked) == 1, "served")
	verifCover(len(vfs.asked) == 0, "rejected")
	verifReach("end")
}
