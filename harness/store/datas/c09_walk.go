package datas

import (
	"github.com/dolthub/dolt/go/store/hash"
	"github.com/dolthub/dolt/go/store/types"
)

func verifWalk(msg []byte) ([]hash.Hash, error) {
	var seen []hash.Hash
	err := types.SerialMessage(msg).WalkAddrs(types.Format_DOLT, func(a hash.Hash) error {
		seen = append(seen, a)
		return nil
	})
	return seen, err
}

func verifReported(seen []hash.Hash, h hash.Hash) bool {
	r := false
	for _, s := range seen {
		r = verifOr(r, s == h)
	}
	return r
}

// H-C09-workingset: a working-set message built by the real workingset_flatbuffer for every pattern of optional parts
// (staged root, merge state with or without the pre-merge head commit, rebase state, meta), every address symbolic:
// the reference walker reports EVERY address put into the message - those are the addresses a loader of the working
// set can dereference (working root, staged root, the merge's pre-merge working root, source commit and pre-merge head
// commit, the rebase's pre-rebase working root and onto commit).
func verifH_C09_workingset() {
	verifPanicIsViolation()
	verifUnwind(256)
	working := verifNondetHash("working")
	var staged *hash.Hash
	if verifNondetBool("has-staged") {
		s := verifNondetHash("staged")
		staged = &s
	}
	var ms *MergeState
	var msPre, msFrom, msHead hash.Hash
	hasHead := false
	if verifNondetBool("has-merge-state") {
		msPre, msFrom = verifNondetHash("merge-pre-working"), verifNondetHash("merge-from-commit")
		ms = &MergeState{preMergeWorkingAddr: &msPre, fromCommitAddr: &msFrom, fromCommitSpec: "s"}
		if verifNondetBool("has-pre-merge-head") {
			msHead = verifNondetHash("merge-pre-head-commit")
			ms.preMergeHeadCommitAddr = &msHead
			hasHead = true
		}
	}
	var rs *RebaseState
	var rsPre, rsOnto hash.Hash
	if verifNondetBool("has-rebase-state") {
		rsPre, rsOnto = verifNondetHash("rebase-pre-working"), verifNondetHash("rebase-onto-commit")
		rs = &RebaseState{preRebaseWorkingAddr: &rsPre, ontoCommitAddr: &rsOnto, branch: "b"}
	}
	var meta *WorkingSetMeta
	if verifNondetBool("has-meta") {
		meta = &WorkingSetMeta{Name: "n", Email: "e", Description: "d", Timestamp: 7}
	}
	msg := workingset_flatbuffer(working, staged, ms, rs, meta)
	seen, err := verifWalk(msg)
	verifAssert(err == nil, "walk-ok")
	verifObserve("reported", uint64(len(seen)))
	verifAssert(verifReported(seen, working), "working-root")
	if staged != nil {
		verifAssert(verifReported(seen, *staged), "staged-root")
	}
	if ms != nil {
		verifAssert(verifReported(seen, msPre), "merge:pre-merge-working-root")
		verifAssert(verifReported(seen, msFrom), "merge:source-commit")
		if hasHead {
			verifAssert(verifReported(seen, msHead), "merge:pre-merge-head-commit")
		}
	}
	if rs != nil {
		verifAssert(verifReported(seen, rsPre), "rebase:pre-rebase-working-root")
		verifAssert(verifReported(seen, rsOnto), "rebase:onto-commit")
	}
	verifCover(verifAnd(ms != nil, rs != nil), "merge-and-rebase-state")
	verifReach("end")
}

// H-C09-small-messages: tag, stash and statistics messages built by their real constructors: the walker reports the
// tagged commit, the stash root and its head commit, the statistics root.
func verifH_C09_small_messages() {
	verifPanicIsViolation()
	verifUnwind(256)
	a, b := verifNondetHash("a"), verifNondetHash("b")
	var tm *TagMeta
	if verifNondetBool("tag-has-meta") {
		tm = &TagMeta{Name: "n", Email: "e", Description: "d", Timestamp: 5, UserTimestamp: 6}
	}
	seen, err := verifWalk(tagSerialMessage(a, tm))
	verifAssert(err == nil, "tag:walk-ok")
	verifAssert(verifReported(seen, a), "tag:commit")
	sm := &StashMeta{BranchName: "b", Description: "d"}
	if verifNondetBool("stash-has-tables") {
		sm.TablesToStage = []string{"t"}
	}
	seen, err = verifWalk(stash_flatbuffer(a, b, sm))
	verifAssert(err == nil, "stash:walk-ok")
	verifAssert(verifReported(seen, a), "stash:root")
	verifAssert(verifReported(seen, b), "stash:head-commit")
	seen, err = verifWalk(Statistics_flatbuffer(a))
	verifAssert(err == nil, "statistics:walk-ok")
	verifAssert(verifReported(seen, a), "statistics:root")
	verifReach("end")
}
