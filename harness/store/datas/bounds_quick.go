package datas

const verifBoundParents = 2
