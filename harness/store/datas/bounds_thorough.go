package datas

const verifBoundParents = 4
