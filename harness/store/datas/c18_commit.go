package datas

import (
	"time"

	"github.com/dolthub/dolt/go/gen/fb/serial"
	"github.com/dolthub/dolt/go/store/hash"
	"github.com/dolthub/dolt/go/store/types"
)

func verifNondetHash(label string) hash.Hash {
	var h hash.Hash
	copy(h[:], verifNondetBytes(label, hash.ByteLen))
	return h
}

// H-C18-commit-message: the commit message written by the real commit_flatbuffer through the real flatbuffers builder,
// for 0..verifBoundParents parents with symbolic addresses and symbolic heights, symbolic root and closure addresses:
// read back through the generated accessors, the height is max(parent heights)+1 (1 for a root commit) and equals the
// height the function returns; the parent list is exactly the given addresses in order; root and closure addresses are
// the given ones. And (C09) the reference walker reports every address the message holds: the root value, every
// parent, and the parent closure when it is set.
func verifH_C18_commit_message() {
	verifPanicIsViolation()
	verifUnwind(256)
	n := verifConcrete(verifNondetIntRange("parents", 0, verifBoundParents), 8)
	root := verifNondetHash("root")
	closure := verifNondetHash("closure")
	parents := make([]hash.Hash, n)
	heights := make([]uint64, n)
	want := uint64(0)
	for i := 0; i < n; i++ {
		parents[i] = verifNondetHash("parent")
		heights[i] = verifNondetU64("height")
		verifAssume(heights[i] < 1<<62)
		if heights[i] > want {
			want = heights[i]
		}
	}
	want++
	ident := CommitIdent{Name: "n", Email: "e", Date: CommitDateAt(time.UnixMilli(1700000000123))}
	opts := CommitOptions{Meta: &CommitMeta{Author: ident, Committer: ident, Description: "d"}, Parents: parents}
	msg, ret := commit_flatbuffer(root, opts, heights, closure)
	verifAssert(ret == want, "returned-height-is-max-parent-height-plus-one")
	verifAssert(serial.GetFileID(msg) == serial.CommitFileID, "file-id")
	var c serial.Commit
	err := serial.InitCommitRoot(&c, msg, serial.MessagePrefixSz)
	verifAssert(err == nil, "message-parses")
	if err != nil {
		return
	}
	verifObserve("height", c.Height())
	verifAssert(c.Height() == want, "stored-height-is-max-parent-height-plus-one")
	verifAssert(verifBytesEq(c.RootBytes(), root[:]), "root-address")
	verifAssert(verifBytesEq(c.ParentClosureBytes(), closure[:]), "closure-address")
	pb := c.ParentAddrsBytes()
	verifAssert(len(pb) == n*hash.ByteLen, "parent-count")
	if len(pb) == n*hash.ByteLen {
		for i := 0; i < n; i++ {
			verifAssert(verifBytesEq(pb[i*hash.ByteLen:(i+1)*hash.ByteLen], parents[i][:]), "parent-address-in-order")
		}
	}
	// C09: the walker reports every address the commit can dereference
	var seen []hash.Hash
	werr := types.SerialMessage(msg).WalkAddrs(types.Format_DOLT, func(a hash.Hash) error {
		seen = append(seen, a)
		return nil
	})
	verifAssert(werr == nil, "walk-ok")
	reported := func(h hash.Hash) bool {
		r := false
		for _, s := range seen {
			r = verifOr(r, s == h)
		}
		return r
	}
	verifAssert(reported(root), "walker-reports-the-root-value")
	for i := 0; i < n; i++ {
		verifAssert(reported(parents[i]), "walker-reports-every-parent")
	}
	verifAssert(verifOr(closure.IsEmpty(), reported(closure)), "walker-reports-the-parent-closure")
	verifCover(n == verifBoundParents, "max-parents")
	verifReach("end")
}
