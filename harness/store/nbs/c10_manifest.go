package nbs

import (
	"bytes"

	"github.com/dolthub/dolt/go/store/hash"
)

// verifManifestText: the text of a valid manifest with one table spec, written by the real writeManifest (v5) or laid
// out by hand in the v4 layout (the code has no v4 writer any more).
func verifManifestText(v4 bool) []byte {
	var mc manifestContents
	mc.nbfVers = "__DOLT__"
	for i := 0; i < hash.ByteLen; i++ {
		mc.lock[i] = byte(0x11 + i)
		mc.root[i] = byte(0x51 + 3*i)
		mc.gcGen[i] = byte(0xa1 + 2*i)
	}
	var name hash.Hash
	for i := 0; i < hash.ByteLen; i++ {
		name[i] = byte(7 * i)
	}
	mc.specs = []tableSpec{{name: name, chunkCount: 42}}
	if v4 {
		s := storageVersion4 + ":" + mc.nbfVers + ":" + mc.lock.String() + ":" + mc.root.String() + ":" + name.String() + ":42"
		return []byte(s)
	}
	var buf bytes.Buffer
	err := writeManifest(&buf, mc)
	verifAssert(err == nil, "template-written")
	return buf.Bytes()
}

// H-C10-manifest-corrupt: the property's own quantifier on the manifest: a small valid manifest (v5 written by the real
// writer, or v4) with ONE byte replaced by an arbitrary value at an arbitrary position. parseManifest returns contents
// or an error; it never panics. An unchanged manifest parses back to what was written.
func verifH_C10_manifest_corrupt() {
	verifPanicIsViolation()
	verifUnwind(400)
	v4 := verifNondetBool("v4")
	verifAssume(verifOr(!v4, verifBoundManifestV4))
	text := verifManifestText(v4)
	pos := verifNondetInt("pos")
	verifAssume(0 <= pos)
	verifAssume(pos < len(text))
	pos = verifConcrete(pos, 256)
	orig := text[pos]
	b := verifNondetU8("byte")
	text[pos] = b
	mc, err := parseManifest(bytes.NewReader(text))
	if b == orig {
		verifAssert(err == nil, "unchanged-parses")
		verifAssert(len(mc.specs) == 1, "unchanged-specs")
		verifAssert(mc.lock[0] == 0x11, "unchanged-lock")
		verifAssert(mc.root[1] == 0x54, "unchanged-root")
		verifAssert(mc.specs[0].chunkCount == 42, "unchanged-count")
	}
	verifCover(err != nil, "rejected")
	verifCover(verifAnd(err == nil, b != orig), "accepted-with-change")
	verifReach("end")
}

// H-C10-manifest-truncated: every truncation point of the same manifests.
func verifH_C10_manifest_truncated() {
	verifPanicIsViolation()
	verifUnwind(400)
	v4 := verifNondetBool("v4")
	text := verifManifestText(v4)
	cut := verifNondetInt("cut")
	verifAssume(0 <= cut)
	verifAssume(cut <= len(text))
	cut = verifConcrete(cut, 256)
	_, err := parseManifest(bytes.NewReader(text[:cut]))
	if cut == len(text) {
		verifAssert(err == nil, "complete-parses")
	}
	verifCover(err != nil, "rejected")
	verifReach("end")
}
