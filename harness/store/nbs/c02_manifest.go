package nbs

import (
	"bytes"
	"context"

	"github.com/dolthub/fslock"

	dherrors "github.com/dolthub/dolt/go/libraries/utils/errors"
	"github.com/dolthub/dolt/go/store/chunks"
	"github.com/dolthub/dolt/go/store/hash"
)

// Manifest contents are built from a few DISTINCT constant hashes: the compare-and-swap logic only ever compares
// lock / gcGen / root hashes for equality, so constants lose nothing, and the manifest text stays concrete for the
// base32 and strconv code on the way to and from the file.
func verifHashConst(seed byte) hash.Hash {
	var h hash.Hash
	for i := range h {
		h[i] = seed + byte(7*i)
	}
	return h
}

func verifManifestContents(lock, root, gcGen byte, nspecs int) manifestContents {
	mc := manifestContents{manifestVers: StorageVersion, nbfVers: "__DOLT__", lock: verifHashConst(lock), root: verifHashConst(root), gcGen: verifHashConst(gcGen)}
	for i := 0; i < nspecs; i++ {
		mc.specs = append(mc.specs, tableSpec{name: verifHashConst(0x40 + byte(i)), chunkCount: uint32(3 + i)})
	}
	return mc
}

func verifManifestBytes(mc manifestContents) []byte {
	var buf bytes.Buffer
	verifAssert(writeManifest(&buf, mc) == nil, "setup:manifest-text")
	return buf.Bytes()
}

func verifSameManifest(a, b manifestContents) bool {
	if a.lock != b.lock || a.root != b.root || a.gcGen != b.gcGen || len(a.specs) != len(b.specs) {
		return false
	}
	for i := range a.specs {
		if a.specs[i] != b.specs[i] {
			return false
		}
	}
	return true
}

// H-C02-manifest-cas: ONE step of the file manifest's compare-and-swap (updateWithChecker: what fileManifest.Update and
// the journal's backing manifest run under their lock) from an arbitrary state, over the file-system model:
//   - it replaces the manifest iff the manifest it read carries lastLock (an absent manifest: iff lastLock is empty)
//     and the GC generation matches; then it returns the new contents, and the NEW manifest is what a crash at any
//     later moment finds (temp file synced before the rename, directory synced after it);
//   - on a stale lock it returns what is there and on a validation error an error; either way the manifest file is
//     unchanged, durably and in the page cache, and no temp file is left behind;
//   - at EVERY crash state in between (after each fsync the call issues) the durable manifest is the old one or the new
//     one, complete, never absent or partial; no file is renamed over the manifest before its content is durable.
func verifH_C02_manifest_cas() {
	verifPanicIsViolation()
	verifUnwind(512)
	ctx := context.Background()
	dir := verifFSRoot() + "/db"
	mpath := dir + "/" + manifestFileName
	verifFSMkdir(dir)
	exists := verifNondetBool("manifest-exists")
	old := verifManifestContents(0x01, 0x02, 0x03, 1)
	oldBytes := verifManifestBytes(old)
	if exists {
		verifFSCreate(mpath, oldBytes)
	}
	// the caller's idea of the lock: the current one, a stale one, or none
	var lastLock hash.Hash
	switch which := verifConcrete(verifNondetIntRange("last-lock", 0, 2), 4); which {
	case 0:
		lastLock = old.lock
	case 1:
		lastLock = verifHashConst(0x11)
	}
	gen := byte(0x03)
	if verifNondetBool("new-gc-generation") {
		gen = 0x13
	}
	next := verifManifestContents(0x21, 0x22, gen, verifConcrete(verifNondetIntRange("new-specs", 1, 2), 4))
	nextBytes := verifManifestBytes(next)
	checker := func(upstream, contents manifestContents) error {
		if contents.gcGen != upstream.gcGen {
			return chunks.ErrGCGenerationExpired
		}
		return nil
	}
	syncs0 := verifFSSyncPoints()
	got, err := updateWithChecker(ctx, dherrors.FatalBehaviorError, dir, checker, lastLock, next, nil)
	syncs1 := verifFSSyncPoints()

	lockMatches := verifOr(verifAnd(exists, lastLock == old.lock), verifAnd(!exists, lastLock.IsEmpty()))
	genMatches := verifOr(!exists, gen == 0x03)
	// (against an absent manifest the checker compares with the zero generation: creating one needs gcGen == 0 there;
	// the store creates its first manifest through this path with a zero generation, not modelled: next.gcGen != 0)
	shouldWrite := verifAnd(verifAnd(lockMatches, exists), genMatches)
	now, have := verifFSRead(mpath)
	dur, dhave := verifFSDurable(mpath)
	verifObserve("err-nil", verifIteU64(err == nil, 1, 0))
	verifObserve("syncs", uint64(syncs1-syncs0))
	if shouldWrite {
		verifAssert(err == nil, "swap:no-error")
		verifAssert(verifSameManifest(got, next), "swap:returns-new-contents")
		verifAssert(verifAnd(have, verifBytesEq(now, nextBytes)), "swap:manifest-is-the-new-one")
		verifAssert(verifAnd(dhave, verifBytesEq(dur, nextBytes)), "swap:new-manifest-is-durable-when-the-call-returns")
	} else if exists {
		if verifAnd(err == nil, !lockMatches) {
			verifAssert(verifSameManifest(got, old), "stale:returns-what-is-there")
		}
		if lockMatches {
			verifAssert(err != nil, "validation-failure-is-an-error")
		}
		verifAssert(verifAnd(have, verifBytesEq(now, oldBytes)), "no-swap:manifest-unchanged")
		verifAssert(verifAnd(dhave, verifBytesEq(dur, oldBytes)), "no-swap:durable-manifest-unchanged")
	}
	if exists {
		// crash atomicity: after each fsync the call issued, the durable manifest is complete and old or new
		for k := syncs0 + 1; k <= syncs1; k++ {
			d, ok := verifFSDurableAtSync(k, mpath)
			verifAssert(ok, "crash:manifest-never-absent")
			verifAssert(verifOr(verifBytesEq(d, oldBytes), verifBytesEq(d, nextBytes)), "crash:manifest-is-old-or-new")
			if !shouldWrite {
				verifAssert(verifBytesEq(d, oldBytes), "crash:failed-update-never-shows-the-new-manifest")
			}
		}
		verifAssert(verifFSUnsyncedRenames() == 0, "crash:nothing-renamed-before-its-content-is-durable")
	}
	verifAssert(verifFSCount(dir) == verifIteInt(verifOr(exists, have), 1, 0), "no-temp-file-left-behind")
	verifCover(shouldWrite, "swap")
	verifCover(verifAnd(exists, !lockMatches), "stale-lock")
	verifCover(verifAnd(verifAnd(exists, lockMatches), !genMatches), "gc-generation-mismatch")
	verifReach("end")
}

// H-C05-manifest-names-existing-files: one fileManifest.Update step (dir/LOCK taken, GC generation check,
// checkNewSpecsPresent, updateWithChecker) from a directory in which every table file named by the manifest exists:
// the new manifest adds one table spec whose file is present as a table file, present as an archive (.darc), or
// MISSING (symbolic). The update is refused with ErrManifestSpecMissingTableFile exactly when the file is missing, and
// then nothing changes; afterwards, and at every crash state in between, every spec named by the durable manifest has
// its file in the directory.
func verifH_C05_manifest_names_existing_files() {
	verifPanicIsViolation()
	verifUnwind(512)
	ctx := context.Background()
	dir := verifFSRoot() + "/db"
	mpath := dir + "/" + manifestFileName
	verifFSMkdir(dir)
	old := verifManifestContents(0x01, 0x02, 0x03, 1)
	oldBytes := verifManifestBytes(old)
	verifFSCreate(mpath, oldBytes)
	verifFSCreate(dir+"/"+old.specs[0].name.String(), []byte{1})
	// the new manifest names one table file the old one does not: added to the old set, or REPLACING the old spec (the
	// number of specs does not grow: what a conjoin or a garbage collection publishes)
	next := verifManifestContents(0x21, 0x22, 0x03, 2)
	replaces := verifNondetBool("new-spec-replaces-the-old-one")
	if replaces {
		next.specs = next.specs[1:]
	}
	nextBytes := verifManifestBytes(next)
	newName := next.specs[len(next.specs)-1].name.String()
	state := verifConcrete(verifNondetIntRange("new-table-file", 0, 2), 4) // 0 missing, 1 table file, 2 archive
	switch state {
	case 1:
		verifFSCreate(dir+"/"+newName, []byte{2})
	case 2:
		verifFSCreate(dir+"/"+newName+ArchiveFileSuffix, []byte{3})
	}
	lock, lerr := fslock.New(dir + "/" + lockFileName)
	verifAssert(lerr == nil, "setup:lock")
	fm := fileManifest{dir: dir, lock: lock}
	syncs0 := verifFSSyncPoints()
	got, err := fm.Update(ctx, dherrors.FatalBehaviorError, old.lock, next, &Stats{}, nil)
	syncs1 := verifFSSyncPoints()
	verifObserve("err-nil", verifIteU64(err == nil, 1, 0))
	now, have := verifFSRead(mpath)
	if state == 0 {
		verifAssert(err != nil, "missing-table-file:update-refused")
		verifAssert(verifAnd(have, verifBytesEq(now, oldBytes)), "missing-table-file:manifest-unchanged")
	} else {
		verifAssert(err == nil, "present-table-file:update-accepted")
		verifAssert(verifSameManifest(got, next), "present-table-file:new-contents")
		verifAssert(verifAnd(have, verifBytesEq(now, nextBytes)), "present-table-file:manifest-is-the-new-one")
	}
	// invariant at every crash state: the durable manifest names only files that are in the directory
	for k := syncs0 + 1; k <= syncs1; k++ {
		d, ok := verifFSDurableAtSync(k, mpath)
		verifAssert(ok, "crash:manifest-present")
		if verifBytesEq(d, nextBytes) {
			verifAssert(state != 0, "crash:durable-manifest-never-names-a-missing-table-file")
		} else {
			verifAssert(verifBytesEq(d, oldBytes), "crash:manifest-is-old-or-new")
		}
	}
	verifCover(state == 0, "missing")
	verifCover(verifAnd(state == 0, replaces), "missing-replacement")
	verifCover(state == 2, "archive")
	verifReach("end")
}

// H-C02-journal-update: ONE ChunkJournal.Update step (the root commit of a journaling store) from a state built with the
// real life cycle: a journal file with one committed root, a backing manifest naming the journal. The caller's lock is
// current or stale (symbolic); the new contents keep the table set or add a table spec (symbolic).
//   - stale lock: the current contents come back, nothing is written anywhere;
//   - otherwise the returned contents are the new ones, and when the call returns a power loss shows a journal that
//     replays to the NEW root (root record flushed and fsynced before the acknowledgement);
//   - a changed table set reaches the backing manifest BEFORE the root record reaches the journal: at every crash
//     state in which the durable journal already shows the new root, the durable manifest already names the new tables.
func verifH_C02_journal_update() {
	verifPanicIsViolation()
	verifUnwind(512)
	ctx := context.Background()
	dir := verifFSRoot() + "/db"
	mpath := dir + "/" + manifestFileName
	jpath := dir + "/" + chunkJournalName
	verifFSMkdir(dir)
	journalRecordTimestampGenerator = func() uint64 { return 0x8182838485868788 }
	cur := verifManifestContents(0x01, 0x02, 0x03, 1)
	cur.specs[0].name = journalAddr // the manifest of a journaling store names the journal
	verifFSCreate(mpath, verifManifestBytes(cur))
	wr, err := createJournalWriter(ctx, jpath)
	verifAssert(err == nil, "setup:create-journal")
	_, err = wr.bootstrapJournal(ctx, true, nil, nil)
	verifAssert(err == nil, "setup:bootstrap")
	verifAssert(wr.commitRootHash(ctx, dherrors.FatalBehaviorError, cur.root) == nil, "setup:first-root")
	lock, lerr := fslock.New(dir + "/" + lockFileName)
	verifAssert(lerr == nil, "setup:lock")
	j := &ChunkJournal{wr: wr, backing: &journalManifest{dir: dir, lock: lock}, reflogRingBuffer: newReflogRingBuffer(8), path: jpath, contents: cur}

	// a chunk written (buffered) before the commit: the commit must make it durable too
	data := []byte{0x05, 0x91}
	full := make([]byte, len(data)+checksumSize)
	copy(full, data)
	writeUint32(full[len(data):], crc(data))
	pending := CompressedChunk{H: verifHashConst(0x61), FullCompressedChunk: full, CompressedData: data}
	verifAssert(wr.writeCompressedChunk(ctx, dherrors.FatalBehaviorError, pending) == nil, "setup:pending-chunk")
	stale := verifNondetBool("caller-lock-is-stale")
	lastLock := cur.lock
	if stale {
		lastLock = verifHashConst(0x11)
	}
	newTables := verifNondetBool("table-set-changes")
	next := verifManifestContents(0x21, 0x22, 0x03, 1)
	if verifNondetBool("root-unchanged") {
		next.root = cur.root // a commit that only adds chunks (Commit(r, r)): still an acknowledged commit
	}
	next.specs[0].name = journalAddr
	if newTables {
		next.specs = append(next.specs, tableSpec{name: verifHashConst(0x41), chunkCount: 4})
	}
	nextBytes := verifManifestBytes(next)
	mut0 := verifFSMutations()
	syncs0 := verifFSSyncPoints()
	got, uerr := j.Update(ctx, dherrors.FatalBehaviorError, lastLock, next, &Stats{}, nil)
	syncs1 := verifFSSyncPoints()
	verifObserve("err-nil", verifIteU64(uerr == nil, 1, 0))
	verifAssert(uerr == nil, "update-ok")
	if stale {
		verifAssert(verifSameManifest(got, cur), "stale:current-contents-returned")
		verifAssert(verifFSMutations() == mut0, "stale:nothing-written")
		verifAssert(verifSameManifest(j.contents, cur), "stale:in-memory-contents-unchanged")
		return
	}
	verifAssert(verifSameManifest(got, next), "commit:new-contents-returned")
	image, ok := verifFSDurableData(jpath)
	verifAssert(ok, "commit:journal-exists")
	last, _, sawPending, rerr := verifRecover(image, pending.H)
	verifAssert(rerr == nil, "commit:durable-journal-replays")
	verifAssert(last == next.root, "commit:acknowledged-root-survives-power-loss")
	verifAssert(sawPending, "commit:chunk-written-before-the-commit-survives-power-loss")
	if newTables {
		dm, dok := verifFSDurable(mpath)
		verifAssert(verifAnd(dok, verifBytesEq(dm, nextBytes)), "commit:new-table-set-is-in-the-durable-manifest")
	}
	// ordering at every crash state of the call
	for k := syncs0 + 1; k <= syncs1; k++ {
		ji, jok := verifFSDurableDataAtSync(k, jpath)
		if !jok {
			continue
		}
		l, _, _, e := verifRecover(ji, hash.Hash{})
		if verifAnd(verifAnd(e == nil, l == next.root), next.root != cur.root) {
			if newTables {
				dm, dok := verifFSDurableAtSync(k, mpath)
				verifAssert(verifAnd(dok, verifBytesEq(dm, nextBytes)), "crash:journal-never-shows-the-new-root-before-the-manifest-names-its-tables")
			}
		}
	}
	verifCover(newTables, "table-set-changes")
	verifReach("end")
}

// verifRacingManifest is a manifest with a concurrent writer: an in-memory compare-and-swap on the lock hash, in which
// another store handle lands a commit (new root, new lock) right before each of the first |interlopers| Update calls.
type verifRacingManifest struct {
	cur         manifestContents
	interlopers int
	calls       int
	roots       []hash.Hash // every root any writer acknowledged, in order
}

func (m *verifRacingManifest) Update(ctx context.Context, behavior dherrors.FatalBehavior, lastLock hash.Hash, next manifestContents, stats *Stats, writeHook func() error) (manifestContents, error) {
	if m.calls < m.interlopers {
		// the other writer's commit: same tables, the root moves
		m.cur.root = verifHashConst(0x70 + byte(m.calls))
		m.cur.lock = verifHashConst(0x80 + byte(m.calls))
		m.roots = append(m.roots, m.cur.root)
	}
	m.calls++
	if m.cur.lock == lastLock {
		m.cur = next
	}
	return m.cur, nil
}

// H-C02-conjoin-never-moves-the-root: the manifest update of a background conjoin (conjoinOperation.updateManifest and
// its optimistic retry loop) against a manifest on which another writer commits 0..2 times while the conjoin retries:
// when the conjoin lands, the table set is the conjoined one and the root is still the LAST root any writer
// acknowledged: a conjoin replaces table files, it never publishes a root.
func verifH_C02_conjoin_never_moves_the_root() {
	verifPanicIsViolation()
	verifUnwind(64)
	ctx := context.Background()
	up := verifManifestContents(0x01, 0x02, 0x03, 3)
	op := &conjoinOperation{cleanup: func() {}, conjoinees: []tableSpec{up.specs[0], up.specs[1]}, conjoined: tableSpec{name: verifHashConst(0x51), chunkCount: 7}}
	m := &verifRacingManifest{cur: up, interlopers: verifConcrete(verifNondetIntRange("commits-by-another-writer", 0, 2), 4)}
	m.roots = append(m.roots, up.root)
	got, _, err := op.updateManifest(ctx, dherrors.FatalBehaviorError, up, m, &Stats{})
	verifAssert(err == nil, "update-ok")
	if err != nil {
		return
	}
	verifObserve("calls", uint64(m.calls))
	verifAssert(verifSameManifest(got, m.cur), "returns-what-is-in-the-manifest")
	verifAssert(m.cur.root == m.roots[len(m.roots)-1], "root-is-the-last-acknowledged-root")
	verifAssert(len(m.cur.specs) == 2, "conjoinees-replaced-by-the-conjoined-table")
	hasConjoined, hasThird := false, false
	for _, s := range m.cur.specs {
		hasConjoined = verifOr(hasConjoined, s.name == op.conjoined.name)
		hasThird = verifOr(hasThird, s.name == up.specs[2].name)
	}
	verifAssert(verifAnd(hasConjoined, hasThird), "table-set-is-conjoined-plus-untouched")
	verifCover(m.interlopers == 2, "two-interlopers")
	verifReach("end")
}
