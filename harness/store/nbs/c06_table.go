package nbs

import (
	"context"

	"github.com/dolthub/dolt/go/store/hash"
)

// verifSnappy is a stand-in for the compressor behind the snappyEncoder interface: a length byte followed by the
// data. Contract used by tableWriter.addChunk: the output is non-empty and starts with a non-zero uvarint.
type verifSnappy struct{}

func (verifSnappy) Encode(dst, src []byte) []byte {
	out := dst[:1+len(src)]
	out[0] = byte(len(src))
	copy(out[1:], src)
	return out
}

// verifBlockHash replaces sha512 for the table's name (the name is not part of the round trip).
type verifBlockHash struct{}

func (verifBlockHash) Write(p []byte) (int, error) { return len(p), nil }
func (verifBlockHash) Sum(b []byte) []byte         { return append(b, make([]byte, 64)...) }
func (verifBlockHash) Reset()                      {}
func (verifBlockHash) Size() int                   { return 64 }
func (verifBlockHash) BlockSize() int              { return 128 }

// H-C06-table: chunks written by the real tableWriter (addChunk, writeIndex, writeFooter) and parsed back by the real
// parseTableIndex are found by lookup at exactly the offset/length the writer used, carry a valid checksum and the
// writer's bytes; addresses that were not written are absent; footer numbers agree.
// bounds: n <= verifBoundN chunks, symbolic 20-byte addresses (pairwise distinct), payloads of 1..2 symbolic bytes.
func verifH_C06_table() {
	verifPanicIsViolation()
	n := verifNondetInt("n")
	verifAssume(1 <= n)
	verifAssume(n <= verifBoundN)
	n = verifConcrete(n, 8)
	buf := make([]byte, 256)
	tw := &tableWriter{buff: buf, blockHash: verifBlockHash{}, snapper: verifSnappy{}}
	addrs := make([]hash.Hash, n)
	offs := make([]uint64, n)
	sizes := make([]uint32, n)
	datas := make([][]byte, n)
	var uncompressed uint64
	for i := 0; i < n; i++ {
		addrs[i] = verifNondetHash("addr")
		for j := 0; j < i; j++ {
			verifAssume(addrs[i] != addrs[j])
		}
		dl := verifNondetInt("datalen")
		verifAssume(1 <= dl)
		verifAssume(dl <= 2)
		dl = verifConcrete(dl, 4)
		datas[i] = verifNondetBytes("data", dl)
		offs[i] = tw.pos
		tw.addChunk(addrs[i], datas[i])
		sizes[i] = uint32(tw.pos - offs[i])
		uncompressed += uint64(dl)
	}
	flen, _, err := tw.finish()
	verifAssert(err == nil, "finish-ok")
	idxStart := flen - indexSize(uint32(n)) - footerSize
	verifAssert(idxStart == offs[n-1]+uint64(sizes[n-1]), "index-follows-chunks")
	idx, err := parseTableIndex(context.Background(), buf[idxStart:flen], &UnlimitedQuotaProvider{})
	verifAssert(err == nil, "parse-ok")
	if err != nil {
		return
	}
	verifAssert(idx.chunkCount() == uint32(n), "count")
	verifAssert(idx.totalUncompressedData() == uncompressed, "uncompressed-total")
	verifAssert(idx.tableFileSize() == flen, "file-size")

	h := verifNondetHash("probe")
	e, ok, err := idx.lookup(&h)
	verifAssert(err == nil, "lookup-no-error")
	present := false
	for i := 0; i < n; i++ {
		is := addrs[i] == h
		present = verifOr(present, is)
		if ok {
			verifAssert(verifImplies(is, e.Offset() == offs[i]), "right-offset")
			verifAssert(verifImplies(is, e.Length() == sizes[i]), "right-length")
		}
	}
	verifAssert(ok == present, "found-iff-written")
	if ok {
		o, l := e.Offset(), uint64(e.Length())
		verifAssert(o+l <= idxStart, "chunk-inside-data-region")
		cc, err := NewCompressedChunk(h, buf[o:o+l])
		verifAssert(err == nil, "checksum-valid")
		if err == nil {
			for i := 0; i < n; i++ {
				if addrs[i] == h {
					verifAssert(len(cc.CompressedData) == 1+len(datas[i]), "payload-length")
					verifAssert(verifBytesEq(cc.CompressedData[1:], datas[i]), "payload-bytes")
				}
			}
		}
	}
	verifCover(ok, "found")
	verifCover(!ok, "absent")
	verifReach("end")
}

// verifHaver is the chunkReader a memtable is written against (the chunks an existing table already holds): hasMany
// marks exactly the addresses in |have|. Only hasMany is used by memTable.write.
type verifHaver struct {
	chunkReader
	have map[hash.Hash]bool
}

func (v verifHaver) hasMany(addrs []hasRecord, keeper keeperF) (bool, gcBehavior, error) {
	remaining := false
	for i := range addrs {
		if v.have[*addrs[i].a] {
			addrs[i].has = true
		} else if !addrs[i].has {
			remaining = true
		}
	}
	return remaining, gcBehavior_Continue, nil
}

// H-C06-memtable-write: memTable.write against a table that already holds an arbitrary subset of the memtable's chunks
// (those are dropped): the table it produces parses back to exactly the chunks that were NOT already present, the
// reported chunk count is their number, and the reported split offset (the length of the chunk-record region, which
// the blobstore persister stores as a separate blob and conjoin lays out by) is exactly where the index starts: the
// end of the last chunk record.
// bounds: 2 chunks (symbolic distinct addresses, 1..2 symbolic bytes), every subset already present.
func verifH_C06_memtable_write() {
	verifPanicIsViolation()
	mt := newMemTable(1 << 20)
	mt.snapper = verifSnappy{}
	n := 2
	addrs := make([]hash.Hash, n)
	datas := make([][]byte, n)
	have := map[hash.Hash]bool{}
	fresh := 0
	for i := 0; i < n; i++ {
		addrs[i] = verifNondetHash("addr")
		for j := 0; j < i; j++ {
			verifAssume(addrs[i] != addrs[j])
		}
		dl := verifConcrete(verifNondetIntRange("datalen", 1, 2), 4)
		datas[i] = verifNondetBytes("data", dl)
		verifAssert(mt.addChunk(addrs[i], datas[i]) == chunkAdded, "added")
		if verifNondetBool("already-in-an-existing-table") {
			have[addrs[i]] = true
		} else {
			fresh++
		}
	}
	_, data, split, count, _, err := mt.write(verifHaver{have: have}, nil, &Stats{})
	verifAssert(err == nil, "write-ok")
	if err != nil {
		return
	}
	verifObserve("count", uint64(count))
	verifObserve("split", split)
	verifAssert(int(count) == fresh, "chunk-count-is-the-number-of-new-chunks")
	flen := uint64(len(data))
	idxStart := flen - indexSize(count) - footerSize
	verifAssert(split == idxStart, "split-offset-is-where-the-index-starts")
	idx, perr := parseTableIndex(context.Background(), data[idxStart:], &UnlimitedQuotaProvider{})
	verifAssert(perr == nil, "parse-ok")
	if perr != nil {
		return
	}
	verifAssert(idx.chunkCount() == count, "index-count")
	var end uint64
	for i := 0; i < n; i++ {
		e, ok, lerr := idx.lookup(&addrs[i])
		verifAssert(lerr == nil, "lookup-ok")
		verifAssert(ok == !have[addrs[i]], "exactly-the-new-chunks-are-in-the-table")
		if ok {
			if e.Offset()+uint64(e.Length()) > end {
				end = e.Offset() + uint64(e.Length())
			}
			cc, cerr := NewCompressedChunk(addrs[i], data[e.Offset():e.Offset()+uint64(e.Length())])
			verifAssert(cerr == nil, "checksum-valid")
			if cerr == nil {
				verifAssert(verifBytesEq(cc.CompressedData[1:], datas[i]), "payload-bytes")
			}
		}
	}
	verifAssert(end == split, "chunk-records-end-at-the-split-offset")
	verifCover(verifAnd(fresh == 1, n == 2), "one-chunk-dropped")
	verifReach("end")
}

// verifSrc is a table file already on disk, as the conjoiner sees it: its parsed index and its counts.
type verifSrc struct {
	chunkSource
	idx   tableIndex
	uncmp uint64
	id    int
}

func (s verifSrc) hash() hash.Hash {
	var h hash.Hash
	h[0] = byte(1 + s.id)
	return h
}
func (s verifSrc) index() (tableIndex, error)      { return s.idx, nil }
func (s verifSrc) count() uint32                   { return s.idx.chunkCount() }
func (s verifSrc) uncompressedLen() (uint64, error) { return s.uncmp, nil }

// verifWriteTable writes n chunks (symbolic addresses, symbolic 1..2 byte payloads) with the real tableWriter and
// parses the index back: one conjoin source. Returns the addresses and where each chunk record lies in the file.
func verifWriteTable(n int) (verifSrc, []hash.Hash, []uint64, []uint32) {
	buf := make([]byte, 256)
	tw := &tableWriter{buff: buf, blockHash: verifBlockHash{}, snapper: verifSnappy{}}
	addrs := make([]hash.Hash, n)
	offs := make([]uint64, n)
	lens := make([]uint32, n)
	var uncmp uint64
	for i := 0; i < n; i++ {
		addrs[i] = verifNondetHash("addr")
		dl := verifConcrete(verifNondetIntRange("datalen", 1, 2), 4)
		offs[i] = tw.pos
		tw.addChunk(addrs[i], verifNondetBytes("data", dl))
		lens[i] = uint32(tw.pos - offs[i])
		uncmp += uint64(dl)
	}
	flen, _, err := tw.finish()
	verifAssert(err == nil, "setup:finish")
	idxStart := flen - indexSize(uint32(n)) - footerSize
	idx, err := parseTableIndex(context.Background(), buf[idxStart:flen], &UnlimitedQuotaProvider{})
	verifAssert(err == nil, "setup:parse")
	return verifSrc{idx: idx, uncmp: uncmp}, addrs, offs, lens
}

// H-C06-conjoin-plan: conjoining two table files (planTableConjoin: sources ordered by descending data size, merged
// index built from their prefix tuples / lengths / suffixes with shifted ordinals) yields an index in which every
// chunk of every source is found at (start of that source's data in the conjoined file + its offset in the source) with
// its length, every other address is absent, and count / compressed size / uncompressed size are the sums.
// bounds: two sources of 1..2 chunks each, all addresses symbolic and pairwise distinct.
func verifH_C06_conjoin_plan() {
	verifPanicIsViolation()
	verifUnwind(128)
	ctx := context.Background()
	var srcs [2]verifSrc
	var addrs [2][]hash.Hash
	var offs [2][]uint64
	var lens [2][]uint32
	var sized []sourceWithSize
	total := 0
	for s := 0; s < 2; s++ {
		n := verifConcrete(verifNondetIntRange("chunks", 1, verifBoundConjoinChunks), 4)
		srcs[s], addrs[s], offs[s], lens[s] = verifWriteTable(n)
		srcs[s].id = s
		total += n
		sized = append(sized, sourceWithSize{source: srcs[s], dataLen: calcChunkRangeSize(srcs[s].idx)})
	}
	for i := range addrs[0] {
		for j := range addrs[1] {
			verifAssume(addrs[0][i] != addrs[1][j])
		}
	}
	if len(addrs[0]) == 2 {
		verifAssume(addrs[0][0] != addrs[0][1])
	}
	if len(addrs[1]) == 2 {
		verifAssume(addrs[1][0] != addrs[1][1])
	}
	d0, d1 := sized[0].dataLen, sized[1].dataLen
	plan, err := planTableConjoin(ctx, sized, &UnlimitedQuotaProvider{}, &Stats{})
	verifAssert(err == nil, "plan-ok")
	if err != nil {
		return
	}
	verifAssert(int(plan.chunkCount) == total, "chunk-count-is-the-sum")
	verifAssert(plan.totalCompressedData == d0+d1, "compressed-size-is-the-sum")
	// where each source's data starts in the conjoined file: in the order the plan lists the sources
	var base [2]uint64
	first := plan.sources.sws[0].source.(verifSrc).id
	verifAssert(plan.sources.sws[0].dataLen >= plan.sources.sws[1].dataLen, "largest-source-first")
	base[first] = 0
	base[1-first] = plan.sources.sws[0].dataLen
	merged, perr := parseTableIndex(ctx, plan.mergedIndex, &UnlimitedQuotaProvider{})
	verifAssert(perr == nil, "merged-index-parses")
	if perr != nil {
		return
	}
	verifAssert(int(merged.chunkCount()) == total, "merged-count")
	verifAssert(merged.totalUncompressedData() == srcs[0].uncmp+srcs[1].uncmp, "uncompressed-size-is-the-sum")
	h := verifNondetHash("probe")
	e, ok, lerr := merged.lookup(&h)
	verifAssert(lerr == nil, "lookup-ok")
	present := false
	for s := 0; s < 2; s++ {
		for i := range addrs[s] {
			is := addrs[s][i] == h
			present = verifOr(present, is)
			if ok {
				verifAssert(verifImplies(is, e.Offset() == base[s]+offs[s][i]), "chunk-at-source-base-plus-offset")
				verifAssert(verifImplies(is, e.Length() == lens[s][i]), "chunk-length-kept")
			}
		}
	}
	verifObserve("found", verifIteU64(ok, 1, 0))
	verifAssert(ok == present, "found-iff-in-some-source")
	verifCover(verifAnd(ok, first == 1), "second-source-placed-first")
	verifReach("end")
}
