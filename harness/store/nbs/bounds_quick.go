package nbs

const verifBoundN = 2
