package nbs

const verifBoundN = 2
const verifBoundJournalBytes = 12
const verifBoundBatch = 2
const verifBoundRootRec = 16
const verifBoundFile = 6
const verifBoundIdxLookups = 2
const verifBoundIdxFile = 72
const verifBoundTail = 8
const verifBoundManifestV4 = false
const verifBoundIdxGarbage = 48
var verifBoundFSModes = [5]bool{true, true, false, true, true}
const verifBoundFSCorruptMetaOnly = true
const verifBoundFSCommits = 2
const verifBoundROTail = 6
const verifBoundArchive = 2
const verifBoundDataLossBytes = 12
const verifBoundConjoinChunks = 1
