package nbs

const verifBoundN = 2
const verifBoundJournalBytes = 12
