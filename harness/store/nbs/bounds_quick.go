package nbs

const verifBoundN = 2
const verifBoundJournalBytes = 12
const verifBoundBatch = 2
const verifBoundRootRec = 16
const verifBoundFile = 6
const verifBoundIdxLookups = 2
const verifBoundIdxFile = 72
const verifBoundTail = 8
const verifBoundManifestV4 = false
