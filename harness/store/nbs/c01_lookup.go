package nbs

import (
	"context"
	"encoding/binary"

	"github.com/dolthub/dolt/go/store/hash"
)

// verifWellFormedIndex builds the bytes of a table-file index + footer for n chunks with symbolic addresses and
// lengths, satisfying the representation invariant of DESIGN Appendix B.1 (producer: tableWriter.writeIndex):
// tuples sorted by prefix, ordinals a permutation, suffix of ordinal o stored at o.
// The permutation is chosen by forking over the feasible ordinals (n! paths).
func verifWellFormedIndex(n int, distinct bool) (buf []byte, addrs []hash.Hash, lens []uint32) {
	addrs = make([]hash.Hash, n)
	lens = make([]uint32, n)
	for i := 0; i < n; i++ {
		b := verifNondetBytes("addr", hash.ByteLen)
		copy(addrs[i][:], b)
		lens[i] = verifNondetU32("len")
	}
	if distinct {
		for i := 0; i < n; i++ {
			for j := i + 1; j < n; j++ {
				verifAssume(addrs[i] != addrs[j])
			}
		}
	}
	cnt := uint32(n)
	buf = make([]byte, indexSize(cnt)+footerSize)
	used := make([]bool, n)
	var prev uint64
	for j := 0; j < n; j++ {
		o := verifNondetInt("ordinal")
		verifAssume(0 <= o)
		verifAssume(o < n)
		o = verifConcrete(o, 8)
		verifAssume(!used[o])
		used[o] = true
		p := addrs[o].Prefix()
		if j > 0 {
			verifAssume(prev <= p)
		}
		prev = p
		binary.BigEndian.PutUint64(buf[j*prefixTupleSize:], p)
		binary.BigEndian.PutUint32(buf[j*prefixTupleSize+hash.PrefixLen:], uint32(o))
	}
	lo := int(lengthsOffset(cnt))
	so := int(suffixesOffset(cnt))
	for i := 0; i < n; i++ {
		binary.BigEndian.PutUint32(buf[lo+i*lengthSize:], lens[i])
		copy(buf[so+i*hash.SuffixLen:], addrs[i][hash.PrefixLen:])
	}
	fo := int(indexSize(cnt))
	binary.BigEndian.PutUint32(buf[fo:], cnt)
	binary.BigEndian.PutUint64(buf[fo+uint32Size:], verifNondetU64("uncompressed"))
	copy(buf[fo+uint32Size+uint64Size:], magicNumber)
	return
}

// H-C01-lookup: onHeapTableIndex.lookup on an arbitrary well-formed index returns exactly the stored entry.
// bounds: n <= verifBoundN entries (symbolic addresses, symbolic 32-bit lengths); all n! tuple orders.
func verifH_C01_lookup() {
	verifPanicIsViolation()
	n := verifNondetInt("n")
	verifAssume(0 <= n)
	verifAssume(n <= verifBoundN)
	n = verifConcrete(n, 8)
	buf, addrs, lens := verifWellFormedIndex(n, true)
	idx, err := parseTableIndex(context.Background(), buf, &UnlimitedQuotaProvider{})
	verifAssert(err == nil, "parse-ok")
	if err != nil {
		return
	}
	verifAssert(idx.chunkCount() == uint32(n), "count")
	var h hash.Hash
	copy(h[:], verifNondetBytes("probe", hash.ByteLen))
	e, ok, err := idx.lookup(&h)
	verifAssert(err == nil, "lookup-no-error")
	present := false
	var off uint64
	for i := 0; i < n; i++ {
		is := addrs[i] == h
		present = verifOr(present, is)
		if ok {
			verifAssert(verifImplies(is, e.Offset() == off), "right-offset")
			verifAssert(verifImplies(is, e.Length() == lens[i]), "right-length")
		}
		off += uint64(lens[i])
	}
	verifAssert(ok == present, "found-iff-present")
	if n > 0 {
		verifAssert(idx.tableFileSize() == off+indexSize(uint32(n))+footerSize, "file-size")
	}
	if n >= 2 {
		verifCover(verifAnd(addrs[0].Prefix() == addrs[1].Prefix(), ok), "shared-prefix-found")
	}
	verifReach("end")
}
