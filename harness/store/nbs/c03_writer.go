package nbs

import (
	"bytes"
	"context"

	dherrors "github.com/dolthub/dolt/go/libraries/utils/errors"
	"github.com/dolthub/dolt/go/store/hash"
)

// verifRecover replays a journal image (what a reopen would see after a crash) with the real reader and returns the
// last root hash record and whether a chunk record with address |want| was delivered.
func verifRecover(image []byte, want hash.Hash) (last hash.Hash, roots int, sawChunk bool, err error) {
	_, err = processJournalRecords(context.Background(), "journal", bytes.NewReader(image), false, 0, func(o int64, r journalRec) error {
		if r.kind == rootHashJournalRecKind {
			last = r.address
			roots++
		}
		if r.kind == chunkJournalRecKind && r.address == want {
			sawChunk = true
		}
		return nil
	}, nil)
	return
}

// H-C03-ack-synced: the writer half of crash recovery. A commit is acknowledged when commitRootHash returns nil. At
// that moment the DURABLE image of the journal file (file content as of its last fsync: what survives a power loss)
// must already replay to the acknowledged root, with every chunk written before it. Two consecutive commits on a fresh
// journal written through the real life cycle (createJournalWriter, bootstrapJournal read-write); each commit writes a
// chunk first or not (symbolic): a commit that writes only a root record must be synced all the same.
func verifH_C03_ack_synced() {
	verifPanicIsViolation()
	verifUnwind(512)
	ctx := context.Background()
	dir := verifFSRoot() + "/db"
	jpath := dir + "/" + chunkJournalName
	verifFSMkdir(dir)
	ts := verifNondetU64("timestamp")
	journalRecordTimestampGenerator = func() uint64 { return ts }
	wr, err := createJournalWriter(ctx, jpath)
	verifAssert(err == nil, "setup:create-journal")
	_, err = wr.bootstrapJournal(ctx, true, nil, nil)
	verifAssert(err == nil, "setup:bootstrap-empty")

	for c := 0; c < 2; c++ {
		withChunk := verifNondetBool("commit-writes-a-chunk")
		var h hash.Hash
		if withChunk {
			data := verifNondetBytes("chunk", 1)
			verifAssume(data[0] < 0x80)
			full := make([]byte, len(data)+checksumSize)
			copy(full, data)
			writeUint32(full[len(data):], crc(data))
			h = verifNondetHash("addr")
			verifAssert(wr.writeCompressedChunk(ctx, dherrors.FatalBehaviorError, CompressedChunk{H: h, FullCompressedChunk: full, CompressedData: data}) == nil, "write-chunk-ok")
		}
		root := verifNondetHash("root")
		cerr := wr.commitRootHash(ctx, dherrors.FatalBehaviorError, root)
		verifAssert(cerr == nil, "commit-ok")
		// the commit has been acknowledged: power loss now
		// (the durable CONTENT of the journal file; that the file's directory entry is never fsynced after
		// createJournalWriter is recorded as an observation in DESIGN.md, the property speaks about the byte stream)
		image, ok := verifFSDurableData(jpath)
		verifAssert(ok, "journal-exists")
		last, roots, saw, rerr := verifRecover(image, h)
		verifObserve("durable-len", uint64(len(image)))
		verifAssert(rerr == nil, "durable-image-replays")
		verifAssert(roots == c+1, "every-acknowledged-root-is-durable")
		verifAssert(last == root, "acknowledged-root-recovered-after-power-loss")
		if withChunk {
			verifAssert(saw, "chunk-written-before-the-commit-is-durable")
		}
	}
	verifReach("end")
}
