package nbs

const verifBoundN = 3
const verifBoundJournalBytes = 24
const verifBoundBatch = 3
const verifBoundRootRec = 40
const verifBoundFile = 10
const verifBoundIdxLookups = 3
const verifBoundIdxFile = 112
const verifBoundTail = 12
const verifBoundManifestV4 = true
