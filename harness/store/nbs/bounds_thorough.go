package nbs

const verifBoundN = 3
