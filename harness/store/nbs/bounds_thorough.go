package nbs

const verifBoundN = 3
const verifBoundJournalBytes = 24
