package nbs

const verifBoundN = 3
const verifBoundJournalBytes = 24
const verifBoundBatch = 3
const verifBoundRootRec = 40
const verifBoundFile = 10
const verifBoundIdxLookups = 3
const verifBoundIdxFile = 112
const verifBoundTail = 12
const verifBoundManifestV4 = true
const verifBoundIdxGarbage = 64
var verifBoundFSModes = [5]bool{true, true, false, true, true}
const verifBoundFSCorruptMetaOnly = true
const verifBoundFSCommits = 2
const verifBoundROTail = 7
const verifBoundArchive = 2
const verifBoundDataLossBytes = 14
const verifBoundConjoinChunks = 1
