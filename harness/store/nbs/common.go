package nbs

import (
	"context"
	"errors"
	"io"

	"github.com/dolthub/dolt/go/store/hash"
)

// verifFile is a table file / journal held in memory: a stub of tableReaderAt over symbolic bytes.
// Contract: ReadAtWithStats returns the bytes [off, off+len(p)) of data, io.EOF if the range leaves the file.
type verifFile struct {
	data  []byte
	reads int
}

func (f *verifFile) ReadAtWithStats(ctx context.Context, p []byte, off int64, stats *Stats) (int, error) {
	f.reads++
	if off < 0 {
		return 0, errors.New("negative offset")
	}
	if uint64(off) > uint64(len(f.data)) {
		return 0, io.EOF
	}
	n := copy(p, f.data[off:])
	if n < len(p) {
		return n, io.EOF
	}
	return n, nil
}
func (f *verifFile) Reader(ctx context.Context) (io.ReadCloser, error) { return nil, errors.New("stub") }
func (f *verifFile) Close() error                                      { return nil }
func (f *verifFile) clone() (tableReaderAt, error)                     { return f, nil }

func verifNondetHash(label string) hash.Hash {
	var h hash.Hash
	copy(h[:], verifNondetBytes(label, hash.ByteLen))
	return h
}
