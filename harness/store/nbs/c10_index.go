package nbs

import (
	"context"
	"encoding/binary"

	"github.com/dolthub/dolt/go/store/hash"
)

// verifArbitraryIndex builds index+footer bytes for n chunks whose tuple/length/suffix bytes are arbitrary.
// Only what the opener has already checked on the way in is assumed (quoted from the code):
//   ReadTableFooter: the magic number; newOnHeapTableIndex: len(buf) == indexSize(count)+footerSize,
//   where count is the footer's chunk count (the manifest's count must equal it, table_set/file_table_persister).
func verifArbitraryIndex(n int) []byte {
	cnt := uint32(n)
	body := verifNondetBytes("index", int(indexSize(cnt)))
	buf := make([]byte, int(indexSize(cnt)+footerSize))
	copy(buf, body)
	fo := int(indexSize(cnt))
	binary.BigEndian.PutUint32(buf[fo:], cnt)
	binary.BigEndian.PutUint64(buf[fo+uint32Size:], verifNondetU64("uncompressed"))
	copy(buf[fo+uint32Size+uint64Size:], magicNumber)
	return buf
}

// H-C10-index: no lookup path panics or mis-slices on a table index with arbitrary contents.
// bounds: count <= verifBoundN, every byte of tuples/lengths/suffixes arbitrary, arbitrary probe address.
func verifH_C10_index_lookup() {
	verifPanicIsViolation()
	n := verifNondetInt("n")
	verifAssume(0 <= n)
	verifAssume(n <= verifBoundN)
	n = verifConcrete(n, 8)
	buf := verifArbitraryIndex(n)
	idx, err := parseTableIndex(context.Background(), buf, &UnlimitedQuotaProvider{})
	if err != nil {
		return
	}
	h := verifNondetHash("probe")
	e, ok, err := idx.lookup(&h)
	if err == nil && ok {
		verifObserve("offset", e.Offset())
		verifObserve("length", uint64(e.Length()))
	}
	_ = idx.tableFileSize()
	verifReach("end")
}

// H-C10-index-reader: tableReader.has / hasMany / findOffsets / get over an arbitrary index and a file of
// arbitrary bytes never panic; get returns data only behind the checksum gate.
func verifH_C10_index_reader() {
	verifPanicIsViolation()
	n := verifNondetInt("n")
	verifAssume(1 <= n)
	verifAssume(n <= verifBoundN)
	n = verifConcrete(n, 8)
	buf := verifArbitraryIndex(n)
	idx, err := parseTableIndex(context.Background(), buf, &UnlimitedQuotaProvider{})
	if err != nil {
		return
	}
	file := &verifFile{data: verifNondetBytes("file", verifBoundFile)}
	tr, err := newTableReader(context.Background(), idx, file, 4096)
	if err != nil {
		return
	}
	h := verifNondetHash("probe")
	_, _, _ = tr.has(h, nil)
	recs := []hasRecord{{a: &h, prefix: h.Prefix()}}
	_, _, _ = tr.hasMany(recs, nil)
	greqs := []getRecord{{a: &h, prefix: h.Prefix()}}
	ors, _, _, err := tr.findOffsets(greqs, nil)
	if err == nil {
		verifObserve("nors", uint64(len(ors)))
	}
	data, _, err := tr.get(context.Background(), h, nil, &Stats{})
	if err == nil && data != nil {
		verifReach("got-data")
	}
	verifReach("end")
}

// H-C10-cchunk: NewCompressedChunk on every buffer length 0..8 with arbitrary bytes never panics and only returns
// data whose trailing word equals the checksum of the rest.
func verifH_C10_cchunk() {
	verifPanicIsViolation()
	n := verifNondetInt("len")
	verifAssume(0 <= n)
	verifAssume(n <= 8)
	n = verifConcrete(n, 16)
	buf := verifNondetBytes("buf", n)
	var h hash.Hash
	cc, err := NewCompressedChunk(h, buf)
	if err == nil {
		verifAssert(len(buf) >= checksumSize, "has-room-for-checksum")
		verifAssert(binary.BigEndian.Uint32(buf[len(buf)-checksumSize:]) == crc(cc.CompressedData), "checksum-gate")
		verifAssert(len(cc.CompressedData) == len(buf)-checksumSize, "data-length")
	}
	verifReach("end")
}
