package nbs

import (
	"bytes"
	"context"
)

// verifChecksummedRecordAt overwrites the checksum word of the candidate record starting at off, if its length word
// describes a record that fits into buf, so that validateJournalRecord accepts it: the adversarial-but-checksummed
// case. Forks over the feasible record lengths.
func verifChecksummedRecordAt(buf []byte, off int) int {
	if off+journalRecLenSz+journalRecChecksumSz > len(buf) {
		return 0
	}
	l := int(readUint32(buf[off:]))
	if l < journalRecLenSz+journalRecChecksumSz {
		return 0
	}
	if l > len(buf)-off {
		return 0
	}
	l = verifConcrete(l, 64)
	end := off + l
	writeUint32(buf[end-journalRecChecksumSz:end], crc(buf[off:end-journalRecChecksumSz]))
	return l
}

// H-C10-journal: the journal reader (the code that runs when a database is opened) never panics on arbitrary bytes,
// including records whose length word and checksum are valid but whose tag stream is arbitrary.
// bounds: journal of <= verifBoundJournalBytes bytes; first record (any feasible length) carries a valid checksum.
func verifH_C10_journal_reader() {
	verifPanicIsViolation()
	verifUnwind(64)
	n := verifNondetInt("n")
	verifAssume(0 <= n)
	verifAssume(n <= verifBoundJournalBytes)
	n = verifConcrete(n, 64)
	buf := verifNondetBytes("journal", n)
	verifChecksummedRecordAt(buf, 0)
	cbs := 0
	_, off, _, _ := processJournalRecordsReader(context.Background(), bytes.NewReader(buf), 0, func(o int64, r journalRec) error {
		cbs++
		return nil
	}, nil)
	verifAssert(off >= 0, "offset-nonneg")
	verifAssert(off <= int64(n), "offset-within-file")
	verifCover(cbs > 0, "a-record-was-accepted")
	verifReach("end")
}

// H-C10-journal-dataloss: the data-loss scanner (runs at open after any damaged record) never panics.
func verifH_C10_journal_dataloss() {
	verifPanicIsViolation()
	verifUnwind(64)
	n := verifNondetInt("n")
	verifAssume(0 <= n)
	verifAssume(n <= verifBoundDataLossBytes)
	n = verifConcrete(n, 64)
	buf := verifNondetBytes("journal", n)
	off, err := processJournalRecords(context.Background(), "journal", bytes.NewReader(buf), false, 0, func(o int64, r journalRec) error {
		return nil
	}, nil)
	if err == nil {
		verifAssert(off <= int64(n), "offset-within-file")
	}
	verifReach("end")
}

// H-C10-roothash: rootHashFromBuffer (used on every index bootstrap) on an arbitrary 40-byte buffer whose first
// record (length word <= verifBoundRootRec) is checksummed never panics.
func verifH_C10_roothash() {
	verifPanicIsViolation()
	verifUnwind(64)
	buf := verifNondetBytes("rec", rootHashRecordSize())
	verifAssume(readUint32(buf) <= verifBoundRootRec)
	verifChecksummedRecordAt(buf, 0)
	_, _ = rootHashFromBuffer(buf, 0)
	verifReach("end")
}
