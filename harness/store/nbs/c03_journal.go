package nbs

import (
	"bytes"
	"context"
	"errors"
)

// verifJournalPrefix writes, with the real record writers, the part of a journal that was flushed and fsynced before
// a commit was acknowledged: one chunk record (symbolic address, p symbolic payload bytes) and one root hash record
// (symbolic root, symbolic timestamp). Returns the bytes and what was written.
func verifJournalPrefix(p int, tag string) (file []byte, cc CompressedChunk, root [20]byte) {
	h := verifNondetHash(tag + "-addr")
	cc = CompressedChunk{H: h, FullCompressedChunk: verifNondetBytes(tag+"-payload", p)}
	r := verifNondetHash(tag + "-root")
	ts := verifNondetU64(tag + "-timestamp")
	journalRecordTimestampGenerator = func() uint64 { return ts }
	l, _ := chunkRecordSize(cc)
	buf := make([]byte, int(l)+rootHashRecordSize())
	n := writeChunkRecord(buf, cc)
	verifAssert(n == l, "chunk-record-size")
	m := writeRootHashRecord(buf[n:], r)
	verifAssert(int(m) == rootHashRecordSize(), "root-record-size")
	return buf, cc, r
}

type verifSeen struct {
	n       int
	okChunk bool
	okRoot  bool
	offRoot int64
	roots   int
	last    [20]byte
}

func (s *verifSeen) cb(cc CompressedChunk, root [20]byte, chunkLen int) func(o int64, r journalRec) error {
	return func(o int64, r journalRec) error {
		if s.n == 0 {
			s.okChunk = verifAnd(verifAnd(o == 0, r.kind == chunkJournalRecKind), verifAnd(r.address == cc.H, verifBytesEq(r.payload, cc.FullCompressedChunk)))
		}
		if s.n == 1 {
			s.okRoot = verifAnd(verifAnd(o == int64(chunkLen), r.kind == rootHashJournalRecKind), r.address == root)
		}
		if r.kind == rootHashJournalRecKind {
			s.roots++
			s.last = r.address
		}
		s.n++
		return nil
	}
}

// H-C03-garbage-tail: a crash leaves, after the acknowledged (synced) records, an unsynced tail that is dropped,
// zero-filled, partially written or garbage: ARBITRARY bytes. Reopening (processJournalRecords, the code that
// bootstrapJournal runs) must still deliver the acknowledged chunk and root exactly as written and must not truncate
// below them; it may fail only with the data-loss error, never panic.
// bounds: acknowledged part = 1 chunk record (payload 1..2 bytes) + 1 root record; tail of 0..verifBoundTail bytes.
func verifH_C03_garbage_tail() {
	verifPanicIsViolation()
	verifUnwind(256)
	p := verifNondetInt("payload-len")
	verifAssume(1 <= p)
	verifAssume(p <= 2)
	p = verifConcrete(p, 4)
	pre, cc, root := verifJournalPrefix(p, "acked")
	t := verifNondetInt("tail-len")
	verifAssume(0 <= t)
	verifAssume(t <= verifBoundTail)
	t = verifConcrete(t, 64)
	tail := verifNondetBytes("tail", t)
	file := make([]byte, 0, len(pre)+t)
	file = append(file, pre...)
	file = append(file, tail...)
	chunkLen := len(pre) - rootHashRecordSize()

	seen := &verifSeen{}
	off, err := processJournalRecords(context.Background(), "journal", bytes.NewReader(file), false, 0, seen.cb(cc, root, chunkLen), nil)
	verifAssert(seen.n >= 2, "acknowledged-records-delivered")
	verifAssert(seen.okChunk, "acknowledged-chunk-as-written")
	verifAssert(seen.okRoot, "acknowledged-root-as-written")
	if err == nil {
		verifAssert(off >= int64(len(pre)), "no-truncation-below-acknowledged")
		verifAssert(off <= int64(len(file)), "offset-within-file")
	}
	if t < journalRecLenSz+journalRecChecksumSz {
		// shorter than the smallest checksummed record: nothing parseable fits behind the acknowledged part,
		// so the torn tail is discarded silently (longer garbage may by accident carry a valid checksum)
		verifAssert(err == nil, "torn-tail-discarded-silently")
		verifAssert(seen.n == 2, "nothing-else-delivered")
		verifAssert(off == int64(len(pre)), "truncate-at-acknowledged-end")
	}
	verifCover(t > 0, "non-empty-tail")
	verifReach("end")
}

// H-C03-torn-commit: a crash in the middle of the NEXT commit: the acknowledged part is followed by a prefix (every
// cut point) of a second chunk record + root record written by the real writers. Reopening shows the acknowledged
// root, or the in-flight root only if its record is complete; never an error, never fewer records.
// bounds: payloads of 1 byte, every cut point of the in-flight part.
func verifH_C03_torn_commit() {
	verifPanicIsViolation()
	verifUnwind(256)
	pre, cc, root := verifJournalPrefix(1, "acked")
	// the in-flight commit has constant field values: what is decided here is framing at every cut point, and the
	// scan for later valid records walks over these bytes position by position (symbolic bytes there would let the
	// uninterpreted checksum "accidentally" validate a window at every position)
	fl := verifJournalConcrete(5)
	var root2 [20]byte
	copy(root2[:], fl[len(fl)-journalRecChecksumSz-20:])
	cut := verifNondetInt("cut")
	verifAssume(0 <= cut)
	verifAssume(cut <= len(fl))
	cut = verifConcrete(cut, 128)
	file := make([]byte, 0, len(pre)+cut)
	file = append(file, pre...)
	file = append(file, fl[:cut]...)
	chunkLen := len(pre) - rootHashRecordSize()

	seen := &verifSeen{}
	off, err := processJournalRecords(context.Background(), "journal", bytes.NewReader(file), false, 0, seen.cb(cc, root, chunkLen), nil)
	verifAssert(err == nil, "torn-commit-is-not-an-error")
	verifAssert(seen.n >= 2, "acknowledged-records-delivered")
	verifAssert(seen.okChunk, "acknowledged-chunk-as-written")
	verifAssert(seen.okRoot, "acknowledged-root-as-written")
	verifAssert(off >= int64(len(pre)), "no-truncation-below-acknowledged")
	if cut == len(fl) {
		verifAssert(seen.roots == 2, "complete-commit-delivered")
		verifAssert(seen.last == root2, "complete-commit-root")
		verifAssert(off == int64(len(file)), "complete-commit-offset")
	} else {
		verifAssert(seen.roots == 1, "incomplete-commit-not-delivered")
		verifAssert(seen.last == root, "acknowledged-root-recovered")
	}
	verifCover(cut == len(fl), "complete")
	verifCover(cut > 0 && cut < len(fl), "torn")
	verifReach("end")
}

// verifJournalConcrete writes one commit (chunk record + root record) with the real writers from CONSTANT field values
// (all field bytes >= 0x80, so that no 4-byte window inside a field reads as a plausible record length): used for the
// part of a journal BEHIND a damaged spot, which possibleDataLossCheck scans byte by byte.
func verifJournalConcrete(seed byte) []byte {
	var h, r [20]byte
	for i := range h {
		h[i] = 0x80 | (seed + byte(i))
		r[i] = 0xc0 | (seed + byte(3*i))
	}
	cc := CompressedChunk{H: h, FullCompressedChunk: []byte{0x90 | seed}}
	journalRecordTimestampGenerator = func() uint64 { return 0x8182838485868788 }
	l, _ := chunkRecordSize(cc)
	buf := make([]byte, int(l)+rootHashRecordSize())
	n := writeChunkRecord(buf, cc)
	writeRootHashRecord(buf[n:], r)
	return buf
}

// H-C03-damage-then-valid: damage in the middle of the journal that is FOLLOWED by later valid records (a root hash
// record and one more record) must be reported as possible data loss, never silently truncated: the open must not
// succeed at an older root. Journal = acknowledged commit 1 (chunk + root, symbolic) | chunk record of commit 2 with
// ONE body byte changed (any position behind the length word, any value) | root record of commit 2 | chunk record of
// commit 3 (commits 2 and 3 with constant field values). Ideal checksum (one changed byte is always detected by CRC-32).
func verifH_C03_damage_then_valid() {
	verifPanicIsViolation()
	verifIdealChecksums()
	verifUnwind(512)
	pre, cc, root := verifJournalPrefix(1, "acked")
	second := verifJournalConcrete(1)
	third := verifJournalConcrete(2)
	chunkLen := len(pre) - rootHashRecordSize()
	thirdChunk := third[:len(third)-rootHashRecordSize()]
	pos := verifNondetInt("pos")
	verifAssume(journalRecLenSz <= pos)
	verifAssume(pos < chunkLen) // inside the chunk record of the second commit, behind its length word
	pos = verifConcrete(pos, 128)
	b := verifNondetU8("byte")
	verifAssume(b != second[pos])
	file := make([]byte, 0, len(pre)+len(second)+len(thirdChunk))
	file = append(file, pre...)
	file = append(file, second...)
	file = append(file, thirdChunk...)
	file[len(pre)+pos] = b

	seen := &verifSeen{}
	off, err := processJournalRecords(context.Background(), "journal", bytes.NewReader(file), false, 0, seen.cb(cc, root, chunkLen), nil)
	verifObserve("err-nil", verifIteU64(err == nil, 1, 0))
	verifAssert(err != nil, "damage-before-valid-records-is-not-silently-truncated")
	verifAssert(errors.Is(err, ErrJournalDataLoss), "reported-as-data-loss")
	verifAssert(seen.roots <= 1, "no-root-behind-the-damage-delivered")
	_ = off
	verifReach("end")
}
