package nbs

import (
	"bufio"
	"bytes"
	"context"
	"errors"

	dherrors "github.com/dolthub/dolt/go/libraries/utils/errors"
	"github.com/dolthub/dolt/go/store/hash"
)

// verifSink is the file the journal index is written to: an io.Writer that keeps the bytes.
type verifSink struct {
	data []byte
}

func (s *verifSink) Write(p []byte) (int, error) {
	s.data = append(s.data, p...)
	return len(p), nil
}

// verifIndexBatch is what the real writer was asked to record.
type verifIndexBatch struct {
	file  []byte
	addrs []hash.Hash
	rngs  []Range
	root  hash.Hash
	end   int64
}

// verifWriteIndexBatch produces one index batch |lookup|...|lookup|meta| with the REAL writer: a journalWriter at an
// arbitrary journal offset receives k chunks through writeCompressedChunk (which records the range in wr.ranges and
// emits the index lookup) and then flushIndexRecord(root, end) with end = the offset at which the root record goes,
// exactly as commitRootHashUnlocked calls it. Chunk i has a symbolic address and i+1 symbolic bytes.
func verifWriteIndexBatch(k int) verifIndexBatch {
	sink := &verifSink{}
	wr := &journalWriter{buf: make([]byte, 0, 256), ranges: newRangeIndex(), indexWriter: bufio.NewWriterSize(sink, 64)}
	base := verifNondetI64("journal-offset")
	verifAssume(base >= 0)
	verifAssume(base < 1<<48)
	wr.off = base
	b := verifIndexBatch{}
	for i := 0; i < k; i++ {
		h := verifNondetHash("addr")
		cc := CompressedChunk{H: h, FullCompressedChunk: verifNondetBytes("chunk", i+1)}
		err := wr.writeCompressedChunk(context.Background(), dherrors.FatalBehaviorError, cc)
		verifAssert(err == nil, "write-chunk-ok")
		rng, ok := wr.ranges.get(h)
		verifAssert(ok, "written-chunk-has-range")
		b.addrs = append(b.addrs, h)
		b.rngs = append(b.rngs, rng)
	}
	b.root = verifNondetHash("root")
	b.end = wr.offset()
	err := wr.flushIndexRecord(context.Background(), b.root, b.end)
	verifAssert(err == nil, "flush-index-record-ok")
	verifAssert(wr.indexWriter.Flush() == nil, "flush-ok")
	b.file = sink.data
	return b
}

var verifErrRejected = errors.New("batch rejected")

// H-C04-index-roundtrip: an index batch written by the real writer is read back by processIndexRecords as exactly
// the lookups written (16-byte address prefix, offset, length = the range the writer keeps in memory for the chunk),
// with the written meta and a matching checksum, and the safe offset is the end of the batch; every truncation of
// that file is a benign end of index (nil error, safe offset 0, no partial batch handed to the callback).
// bounds: one batch of 0..verifBoundIdxLookups lookups, every truncation point.
func verifH_C04_index_roundtrip() {
	verifPanicIsViolation()
	verifUnwind(128)
	k := verifNondetInt("k")
	verifAssume(0 <= k)
	verifAssume(k <= verifBoundIdxLookups)
	k = verifConcrete(k, 8)
	b := verifWriteIndexBatch(k)
	full := len(b.file)
	verifAssert(full == k*(1+lookupSz)+1+lookupMetaSz, "batch-size")

	cut := verifNondetInt("cut")
	verifAssume(0 <= cut)
	verifAssume(cut <= full)
	cut = verifConcrete(cut, 256)
	file := b.file[:cut]

	calls := 0
	off, err := processIndexRecords(bufio.NewReaderSize(bytes.NewReader(file), 64), int64(len(file)), func(m lookupMeta, batch []lookup, sum uint32) error {
		calls++
		verifAssert(m.checkSum == sum, "roundtrip-checksum-matches")
		verifAssert(m.batchStart == 0, "roundtrip-start")
		verifAssert(m.batchEnd == b.end, "roundtrip-end")
		verifAssert(m.latestHash == b.root, "roundtrip-root")
		verifAssert(len(batch) == k, "roundtrip-count")
		if len(batch) == k {
			for i := 0; i < k; i++ {
				verifAssert(batch[i].a == toAddr16(b.addrs[i]), "roundtrip-address")
				verifAssert(batch[i].r.Offset == b.rngs[i].Offset, "roundtrip-offset")
				verifAssert(batch[i].r.Length == b.rngs[i].Length, "roundtrip-length")
			}
		}
		return nil
	})
	verifAssert(err == nil, "truncation-is-benign")
	if cut == full {
		verifAssert(calls == 1, "full-batch-delivered")
		verifAssert(off == int64(full), "safe-offset-is-batch-end")
	} else {
		verifAssert(calls == 0, "partial-batch-not-delivered")
		verifAssert(off == 0, "safe-offset-before-partial-batch")
	}
	verifCover(cut == full, "full")
	verifCover(cut < full, "truncated")
	verifReach("end")
}

// H-C04-index-corrupt: "checksummed-but-wrong". The index file holds one batch written by the real writer for a
// journal whose only root record is at |end| and holds |root|. One byte of the file, at ANY position, is replaced by
// ANY other value. The reader validates a batch the way readJournalIndex's callback does (checksum, contiguity from
// 0, root record at batchEnd holds latestHash; that callback runs under errgroup/goroutines/os.File and is mirrored
// here, see DESIGN). Whatever batch is accepted must carry the ranges that were written: the index must never change
// which bytes of the journal an address resolves to.
// Assumptions (stated): the root hash occurs nowhere else in the file (hash outputs are unstructured); crc32 detects a change of the bytes it covers (ideal checksum; exact for one changed byte): crc32 is an
// uninterpreted function for the solver, made collision-free on the applications of one path by verifIdealChecksums.
// What the checksum covers is NOT assumed: it is whatever the real writer and reader feed to crc32.Update.
// bounds: one batch of 1..verifBoundIdxLookups lookups, one corrupted byte.
func verifH_C04_index_corrupt() {
	verifPanicIsViolation()
	verifIdealChecksums()
	verifUnwind(128)
	k := verifNondetInt("k")
	verifAssume(1 <= k)
	verifAssume(k <= verifBoundIdxLookups)
	k = verifConcrete(k, 8)
	b := verifWriteIndexBatch(k)
	full := len(b.file)

	// reference: what the real reader delivers for the uncorrupted file (H-C04-index-roundtrip shows it is what was written)
	var ref []lookup
	var refMeta lookupMeta
	_, rerr := processIndexRecords(bufio.NewReaderSize(bytes.NewReader(b.file), 64), int64(full), func(m lookupMeta, batch []lookup, sum uint32) error {
		ref, refMeta = batch, m
		return nil
	})
	verifAssume(rerr == nil)
	verifAssume(len(ref) == k)

	// hash values are unstructured: the 20-byte root hash does not also occur at another position of the index file
	// (otherwise a corrupted record tag can re-frame address/offset bytes as a meta record naming the same root)
	rootPos := full - hash.ByteLen
	verifAssert(verifBytesEq(b.file[rootPos:], b.root[:]), "root-is-last-field")
	for p := 0; p < rootPos; p++ {
		verifAssume(!verifBytesEq(b.file[p:p+hash.ByteLen], b.root[:]))
	}

	pos := verifNondetInt("corrupt-position")
	verifAssume(0 <= pos)
	verifAssume(pos < full)
	pos = verifConcrete(pos, 256)
	nv := verifNondetU8("corrupt-value")
	verifAssume(nv != b.file[pos])
	file := make([]byte, full)
	copy(file, b.file)
	file[pos] = nv

	accepted := 0
	off, err := processIndexRecords(bufio.NewReaderSize(bytes.NewReader(file), 64), int64(full), func(m lookupMeta, batch []lookup, sum uint32) error {
		// the validation of readJournalIndex, against a journal with one root record (root) at end
		if m.checkSum != sum {
			return verifErrRejected
		}
		if m.batchStart != 0 {
			return verifErrRejected
		}
		if m.batchEnd != refMeta.batchEnd || m.latestHash != refMeta.latestHash {
			return verifErrRejected
		}
		accepted++
		verifAssert(len(batch) == k, "accepted-count-as-written")
		if len(batch) == k {
			for i := 0; i < k; i++ {
				verifAssert(batch[i].a == ref[i].a, "accepted-address-as-written")
				verifAssert(batch[i].r.Offset == ref[i].r.Offset, "accepted-offset-as-written")
				verifAssert(batch[i].r.Length == ref[i].r.Length, "accepted-length-as-written")
			}
		}
		return nil
	})
	verifAssert(off >= 0, "safe-offset-nonneg")
	verifAssert(off <= int64(full), "safe-offset-within-file")
	if err == nil && accepted == 1 {
		verifAssert(off == int64(full), "accepted-batch-ends-at-safe-offset")
	}
	// no cover on "accepted": with a checksum over every field no single-byte corruption is accepted at all
	verifCover(err != nil, "a-batch-was-rejected")
	verifReach("end")
}

// H-C04-index-arbitrary: processIndexRecords on ARBITRARY bytes (random index content) never panics, reports a safe
// offset inside the file that is the end of the last batch handed to the callback, and hands the callback only
// complete batches.
// bounds: files of 0..verifBoundIdxFile bytes; the callback accepts or rejects arbitrarily.
func verifH_C04_index_arbitrary() {
	verifPanicIsViolation()
	verifUnwind(128)
	n := verifNondetInt("n")
	verifAssume(0 <= n)
	verifAssume(n <= verifBoundIdxFile)
	n = verifConcrete(n, 256)
	file := verifNondetBytes("index-file", n)
	consumed := int64(0)
	rejected := false
	off, err := processIndexRecords(bufio.NewReaderSize(bytes.NewReader(file), 64), int64(n), func(m lookupMeta, batch []lookup, sum uint32) error {
		verifAssert(!rejected, "no-batch-after-rejection")
		if verifNondetBool("reject") {
			rejected = true
			return verifErrRejected
		}
		consumed += int64(len(batch))*(1+lookupSz) + 1 + lookupMetaSz
		return nil
	})
	verifAssert(off == consumed, "safe-offset-is-end-of-accepted-batches")
	verifAssert(off <= int64(n), "safe-offset-within-file")
	verifAssert(verifImplies(rejected, err != nil), "rejection-is-reported")
	verifCover(consumed > 0, "a-batch-was-delivered")
	verifCover(err != nil, "an-error-was-reported")
	verifReach("end")
}
