package nbs

import (
	"context"

	dherrors "github.com/dolthub/dolt/go/libraries/utils/errors"
	"github.com/dolthub/dolt/go/store/hash"
)

// verifJournalDir writes a journal and its index with the REAL life cycle of a journaling store: createJournalWriter,
// bootstrapJournal in read-write mode (creates journal.idx), two chunk writes, commitRootHash (flush + fsync; with
// maxNovel = 1 it also emits one index batch), Close. Addresses, payload bytes and the root are symbolic.
type verifJournalDir struct {
	dir, journal, index string
	ccs                 []CompressedChunk
	root                hash.Hash
}

func verifWriteJournalDir(commits int) verifJournalDir {
	ctx := context.Background()
	d := verifJournalDir{dir: verifFSRoot() + "/db"}
	d.journal = d.dir + "/" + chunkJournalName
	d.index = d.dir + "/" + journalIndexFileName
	verifFSMkdir(d.dir)
	ts := verifNondetU64("timestamp")
	journalRecordTimestampGenerator = func() uint64 { return ts }
	wr, err := createJournalWriter(ctx, d.journal)
	verifAssert(err == nil, "setup:create-journal")
	wr.maxNovel = 1
	_, err = wr.bootstrapJournal(ctx, true, nil, nil)
	verifAssert(err == nil, "setup:bootstrap-empty")
	for c := 0; c < commits; c++ {
		for i := 0; i < 2; i++ {
			// a well-formed compressed chunk: opaque compressed bytes followed by their checksum
			data := verifNondetBytes("chunk", i+1)
			// snappy block format: the data starts with the uvarint of the uncompressed length; one-byte varint here
			verifAssume(data[0] < 0x80)
			full := make([]byte, len(data)+checksumSize)
			copy(full, data)
			writeUint32(full[len(data):], crc(data))
			cc := CompressedChunk{H: verifNondetHash("addr"), FullCompressedChunk: full, CompressedData: data}
			// journal_writer.go, rangeIndex: "cached Ranges are keyed by a 16-byte prefix of their addr which is
			// assumed to be globally unique" (addresses are SHA-512 prefixes): stored chunks never share 16 bytes
			for _, o := range d.ccs {
				verifAssume(toAddr16(o.H) != toAddr16(cc.H))
			}
			verifAssert(wr.writeCompressedChunk(ctx, dherrors.FatalBehaviorError, cc) == nil, "setup:write-chunk")
			d.ccs = append(d.ccs, cc)
		}
		d.root = verifNondetHash("root")
		verifAssert(wr.commitRootHash(ctx, dherrors.FatalBehaviorError, d.root) == nil, "setup:commit-root")
	}
	verifAssert(wr.Close() == nil, "setup:close")
	return d
}

// verifOpenAndCheck reopens the directory and compares what the store shows with what was committed.
func verifOpenAndCheck(d verifJournalDir, canWrite bool, tag string) {
	ctx := context.Background()
	before := verifFSMutations()
	wr, exists, err := openJournalWriter(ctx, d.journal)
	verifAssert(err == nil, tag+":open-ok")
	verifAssert(exists, tag+":journal-exists")
	if err != nil || !exists {
		return
	}
	warned := 0
	last, err := wr.bootstrapJournal(ctx, canWrite, nil, func(error) { warned++ })
	verifAssert(err == nil, tag+":bootstrap-ok")
	if err != nil {
		return
	}
	verifObserve(tag+":warned", uint64(warned))
	verifAssert(last == d.root, tag+":same-root-as-without-index")
	verifObserve(tag+":count", uint64(wr.recordCount()))
	verifAssert(int(wr.recordCount()) == len(d.ccs), tag+":same-chunk-count")
	for i, cc := range d.ccs {
		verifAssert(wr.hasAddr(cc.H), tag+":chunk-present")
		got, gerr := wr.getCompressedChunk(cc.H)
		verifAssert(gerr == nil, tag+":chunk-readable")
		if gerr == nil {
			verifAssert(verifBytesEq(got.FullCompressedChunk, cc.FullCompressedChunk), tag+":chunk-bytes")
		}
		_ = i
	}
	absent := verifNondetHash("absent")
	// the index keys chunks by their first 16 bytes ("assumed to be globally unique"): keep the probe outside that
	for _, cc := range d.ccs {
		verifAssume(toAddr16(absent) != toAddr16(cc.H))
	}
	verifAssert(!wr.hasAddr(absent), tag+":absent-address-absent")
	if !canWrite {
		verifAssert(verifFSMutations() == before, tag+":read-only-open-never-modifies-a-file")
		verifAssert(wr.indexWriter == nil, tag+":read-only-has-no-index-writer")
	}
}

// H-C04-fs-index-states: the journal index is only an accelerator. For a journal + index written by the real writer,
// with the index then left as it is / deleted / truncated at any point / replaced by arbitrary bytes, opening the
// directory (read-only or read-write, symbolic) shows the committed root and exactly the committed chunks, byte for
// byte, and a read-only open issues no mutating file operation.
// The code under test is the whole open path: openJournalWriter, bootstrapJournal, loadJournalIndex, readJournalIndex
// (its validation closure, errgroup producer/consumer sequentialised), corruptIndexRecovery, truncateIndex,
// processJournalRecords, rangeIndex, getCompressedChunk/readAt.
func verifH_C04_fs_index_states() {
	verifPanicIsViolation()
	verifUnwind(512)
	d := verifWriteJournalDir(verifBoundFSCommits)
	idx, ok := verifFSRead(d.index)
	verifAssert(ok, "setup:index-written")
	batch := 2*(1+lookupSz) + 1 + lookupMetaSz
	verifAssert(len(idx) == verifBoundFSCommits*batch, "setup:index-holds-one-batch-per-commit")
	mode := verifNondetInt("index-state")
	verifAssume(0 <= mode)
	verifAssume(mode <= 4)
	mode = verifConcrete(mode, 8)
	verifAssume(verifBoundFSModes[mode])
	switch mode {
	case 0: // as written
	case 1: // every truncation point (0 = empty file)
		cut := verifNondetInt("cut")
		verifAssume(0 <= cut)
		verifAssume(cut < len(idx))
		cut = verifConcrete(cut, 256)
		verifFSCreate(d.index, idx[:cut])
	case 2: // arbitrary bytes
		n := verifNondetInt("garbage-len")
		verifAssume(1 <= n)
		verifAssume(n <= verifBoundIdxGarbage)
		n = verifConcrete(n, 256)
		verifFSCreate(d.index, verifNondetBytes("garbage", n))
	case 3: // missing
		verifFSRemove(d.index)
	case 4: // stale / spliced: the first batch is gone, the later ones are intact
		verifAssume(verifBoundFSCommits > 1)
		verifFSCreate(d.index, idx[batch:])
	}
	canWrite := verifNondetBool("can-write")
	verifOpenAndCheck(d, canWrite, "open")
	verifCover(mode == 1, "truncated")
	verifCover(verifOr(!verifBoundFSModes[2], mode == 2), "garbage")
	verifCover(verifOr(verifBoundFSCommits < 2, mode == 4), "spliced")
	verifReach("end")
}

// H-C04-fs-index-corrupt: every single-byte corruption (any position, any value) of the index written by the real
// writer, then a reopen through the real open path. Ideal checksum (see verifIdealChecksums).
func verifH_C04_fs_index_corrupt() {
	verifPanicIsViolation()
	verifIdealChecksums()
	verifUnwind(512)
	d := verifWriteJournalDir(verifBoundFSCommits)
	idx, ok := verifFSRead(d.index)
	verifAssert(ok, "setup:index-written")
	pos := verifNondetInt("pos")
	verifAssume(0 <= pos)
	verifAssume(pos < len(idx))
	if verifBoundFSCorruptMetaOnly {
		// quick tier: the batch's meta record (tag, start, end, checksum, root): the inputs of readJournalIndex's own
		// validation; corruptions of the lookups are covered at unit level by verifH_C04_index_corrupt
		// of the LAST batch, and there its tag and checksum (an earlier batch stays valid: corruptIndexRecovery must
		// forget it as well)
		verifAssume(verifOr(pos == len(idx)-1-lookupMetaSz, verifAnd(pos >= len(idx)-hash.ByteLen-4, pos < len(idx)-hash.ByteLen)))
	}
	pos = verifConcrete(pos, 256)
	b := verifNondetU8("byte")
	verifAssume(b != idx[pos])
	idx[pos] = b
	verifFSCreate(d.index, idx)
	canWrite := verifNondetBool("can-write")
	verifOpenAndCheck(d, canWrite, "corrupt")
	verifReach("end")
}

// H-C41-readonly-open: a read-only open (another process holds the write lock) of a directory whose journal has a
// torn tail (the acknowledged records followed by ARBITRARY bytes) and whose index is intact, truncated at any point
// or missing: the open succeeds, shows the committed root and chunks, and issues NO mutating file operation on any
// file of the directory (no create, write, truncate, sync, rename, remove); a read-write open of the same directory
// may truncate, a read-only one never does.
func verifH_C41_readonly_open() {
	verifPanicIsViolation()
	verifUnwind(512)
	d := verifWriteJournalDir(1)
	j, ok := verifFSRead(d.journal)
	verifAssert(ok, "setup:journal-written")
	t := verifNondetInt("tail-len")
	verifAssume(0 <= t)
	verifAssume(t <= verifBoundROTail)
	t = verifConcrete(t, 64)
	tail := verifNondetBytes("tail", t)
	torn := make([]byte, 0, len(j)+t)
	torn = append(torn, j...)
	torn = append(torn, tail...)
	verifFSCreate(d.journal, torn)
	idx, ok := verifFSRead(d.index)
	verifAssert(ok, "setup:index-written")
	mode := verifNondetInt("index-state")
	verifAssume(0 <= mode)
	verifAssume(mode <= 2)
	mode = verifConcrete(mode, 8)
	switch mode {
	case 1:
		cut := verifNondetInt("cut")
		verifAssume(0 <= cut)
		verifAssume(cut < len(idx))
		cut = verifConcrete(cut, 256)
		verifFSCreate(d.index, idx[:cut])
	case 2:
		verifFSRemove(d.index)
	}
	ctx := context.Background()
	before := verifFSMutations()
	wr, exists, err := openJournalWriter(ctx, d.journal)
	verifAssert(verifAnd(err == nil, exists), "ro:open-ok")
	if err != nil || !exists {
		return
	}
	last, err := wr.bootstrapJournal(ctx, false, nil, func(error) {})
	after := verifFSMutations()
	verifObserve("mutations", uint64(after-before))
	verifAssert(after == before, "ro:no-mutating-file-operation")
	verifAssert(wr.indexWriter == nil, "ro:no-index-writer")
	if t < journalRecLenSz+journalRecChecksumSz {
		// a tail shorter than the smallest checksummed record cannot hold a record: the open must succeed
		verifAssert(err == nil, "ro:torn-tail-open-ok")
	}
	if err == nil {
		verifAssert(last == d.root, "ro:committed-root")
		for _, cc := range d.ccs {
			verifAssert(wr.hasAddr(cc.H), "ro:chunk-present")
		}
	}
	now, _ := verifFSRead(d.journal)
	verifAssert(verifBytesEq(now, torn), "ro:journal-bytes-unchanged")
	verifCover(t > 0, "torn-tail")
	verifCover(mode == 1, "truncated-index")
	verifReach("end")
}
