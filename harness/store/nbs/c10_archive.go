package nbs

import (
	"context"
)

// H-C10-archive-spans: reading a chunk's bytes out of an archive whose index sections are arbitrary (corrupt chunk
// references, a span-end table that is not monotone) never panics - in particular the allocation in readByteSpan,
// whose length is the difference of two span ends taken from the file - and returns either an error or bytes that lie
// inside the file. The footer's index checksum is never verified on open (archive_reader.go), so these index contents
// reach the read path unchanged.
// bounds: n <= 2 entries (spanIndex of n+2 words, every word arbitrary), arbitrary (dict, data) references, every
// entry, file of verifBoundFile arbitrary bytes; the prefix search is not part of this harness (C01 archive_lookup).
func verifH_C10_archive_spans() {
	verifPanicIsViolation()
	verifUnwind(16)
	n := verifConcrete(verifNondetIntRange("n", 1, 2), 4)
	idx, _ := verifArchiveIndex(n, false)
	file := &verifFile{data: verifNondetBytes("file", 6)}
	ar := &archiveReader{reader: file, indexReader: idx,
		footer: archiveFooter{chunkCount: uint32(n), byteSpanCount: uint32(n + 1), fileSize: uint64(len(file.data))}}
	i := verifConcrete(verifNondetIntRange("entry", 0, n-1), 4)
	_, dataId := ar.getChunkRef(i)
	bs := ar.getByteSpanByID(dataId)
	verifObserve("span-offset", bs.offset)
	verifObserve("span-length", bs.length)
	data, err := ar.readByteSpan(context.Background(), bs, &Stats{})
	if err == nil {
		verifObserve("read", uint64(len(data)))
		verifAssert(uint64(len(data)) == bs.length, "read-whole-span")
		verifAssert(verifAnd(bs.length <= uint64(len(file.data)), bs.offset <= uint64(len(file.data))-bs.length), "span-inside-the-file")
	}
	verifReach("end")
}
