package nbs

import (
	"github.com/dolthub/dolt/go/store/hash"
)

// verifArchiveIndex builds the in-memory form of an archive index of n chunks directly (what
// newInMemoryArchiveIndexReader produces from the file sections): prefixes (symbolic; sorted when |wellFormed|),
// 12-byte suffixes, (dictionary, data) byte-span references and the cumulative span-end table.
func verifArchiveIndex(n int, wellFormed bool) (*inMemoryArchiveIndexReader, []hash.Hash) {
	idx := &inMemoryArchiveIndexReader{
		prefixes:  make([]uint64, n),
		spanIndex: make([]uint64, n+2),
		chunkRefs: make([]uint32, 2*n),
		suffixes:  verifNondetBytes("suffixes", n*hash.SuffixLen),
	}
	addrs := make([]hash.Hash, n)
	for i := 0; i < n; i++ {
		idx.prefixes[i] = verifNondetU64("prefix")
		if wellFormed && i > 0 {
			verifAssume(idx.prefixes[i-1] <= idx.prefixes[i])
		}
		var sfx [hash.SuffixLen]byte
		copy(sfx[:], idx.suffixes[i*hash.SuffixLen:(i+1)*hash.SuffixLen])
		addrs[i] = reconstructHashFromPrefixAndSuffix(idx.prefixes[i], sfx)
		idx.chunkRefs[2*i] = verifNondetU32("dict-ref")
		idx.chunkRefs[2*i+1] = verifNondetU32("data-ref")
	}
	for i := 1; i < len(idx.spanIndex); i++ {
		idx.spanIndex[i] = verifNondetU64("span-end")
		if wellFormed {
			verifAssume(idx.spanIndex[i-1] <= idx.spanIndex[i])
		}
	}
	return idx, addrs
}

// H-C01-archive-lookup: the archive reader's index search (interpolation search prollyBinSearch over the sorted 8-byte
// prefixes, then the scan over equal prefixes comparing 12-byte suffixes) finds an address exactly when it is in the
// index, at an entry that carries this address - including addresses that share their prefix with other entries and
// absent addresses adjacent to present ones - and maps span ids to (end[id-1], end[id]-end[id-1]).
// bounds: n <= verifBoundArchive entries, everything symbolic.
func verifH_C01_archive_lookup() {
	verifPanicIsViolation()
	verifUnwind(64)
	n := verifConcrete(verifNondetIntRange("n", 0, verifBoundArchive), 8)
	idx, addrs := verifArchiveIndex(n, true)
	ar := &archiveReader{indexReader: idx, footer: archiveFooter{chunkCount: uint32(n), byteSpanCount: uint32(n + 1)}}
	h := verifNondetHash("probe")
	got := ar.findIndex(h)
	present := false
	for i := 0; i < n; i++ {
		present = verifOr(present, addrs[i] == h)
	}
	verifObserve("found", verifIteU64(got >= 0, 1, 0))
	verifAssert((got >= 0) == present, "found-iff-in-the-index")
	verifAssert(ar.has(h) == present, "has-agrees")
	if got >= 0 {
		verifAssert(got < n, "index-in-range")
		if got < n {
			verifAssert(addrs[got] == h, "entry-carries-the-address")
			d, dt := ar.getChunkRef(got)
			verifAssert(d == idx.chunkRefs[2*got], "dictionary-ref-of-the-entry")
			verifAssert(dt == idx.chunkRefs[2*got+1], "data-ref-of-the-entry")
		}
	}
	id := uint32(verifConcrete(verifNondetIntRange("span-id", 0, n+1), 16))
	bs := ar.getByteSpanByID(id)
	if id == 0 {
		verifAssert(bs.offset == 0, "null-span")
		verifAssert(bs.length == 0, "null-span-length")
	} else {
		verifAssert(bs.offset == idx.spanIndex[id-1], "span-starts-where-the-previous-ends")
		verifAssert(bs.offset+bs.length == idx.spanIndex[id], "span-ends-at-its-table-entry")
	}
	if n >= 2 {
		verifCover(verifAnd(idx.prefixes[0] == idx.prefixes[n-1], present), "shared-prefix-hit")
	}
	verifReach("end")
}
