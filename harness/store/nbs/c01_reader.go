package nbs

import (
	"context"

	"github.com/dolthub/dolt/go/store/hash"
)

// H-C01-reader: on a well-formed index, has / hasMany / findOffsets / lookup all agree with membership, and
// findOffsets reports the stored (offset, length) of every requested address that is present.
// bounds: n <= verifBoundN chunks, m = 2 requests sorted by prefix (the precondition established by toHasRecords /
// toGetRecords, which sort by prefix before calling), requests may be equal, share prefixes, or be absent.
func verifH_C01_reader() {
	verifPanicIsViolation()
	n := verifNondetInt("n")
	verifAssume(0 <= n)
	verifAssume(n <= verifBoundN)
	n = verifConcrete(n, 8)
	buf, addrs, lens := verifWellFormedIndex(n, true)
	idx, err := parseTableIndex(context.Background(), buf, &UnlimitedQuotaProvider{})
	verifAssert(err == nil, "parse-ok")
	if err != nil {
		return
	}
	tr, err := newTableReader(context.Background(), idx, &verifFile{}, 4096)
	verifAssert(err == nil, "reader-ok")
	if err != nil {
		return
	}
	h0 := verifNondetHash("req0")
	h1 := verifNondetHash("req1")
	verifAssume(h0.Prefix() <= h1.Prefix())

	in0, in1 := false, false
	var off0, off1, off uint64
	var len0, len1 uint32
	for i := 0; i < n; i++ {
		is0 := addrs[i] == h0
		is1 := addrs[i] == h1
		in0 = verifOr(in0, is0)
		in1 = verifOr(in1, is1)
		off0 = verifIteU64(is0, off, off0)
		off1 = verifIteU64(is1, off, off1)
		len0 = uint32(verifIteU64(is0, uint64(lens[i]), uint64(len0)))
		len1 = uint32(verifIteU64(is1, uint64(lens[i]), uint64(len1)))
		off += uint64(lens[i])
	}

	// has
	ok0, _, err := tr.has(h0, nil)
	verifAssert(err == nil, "has-no-error")
	verifAssert(ok0 == in0, "has-iff-present")

	// hasMany
	hrecs := []hasRecord{{a: &h0, prefix: h0.Prefix(), order: 0}, {a: &h1, prefix: h1.Prefix(), order: 1}}
	remaining, _, err := tr.hasMany(hrecs, nil)
	verifAssert(err == nil, "hasMany-no-error")
	verifAssert(hrecs[0].has == in0, "hasMany-flag0")
	verifAssert(hrecs[1].has == in1, "hasMany-flag1")
	// remaining must be true whenever some request is still unfound (it may be conservatively true otherwise)
	verifAssert(verifImplies(verifOr(!in0, !in1), remaining), "hasMany-remaining")

	// findOffsets
	greqs := []getRecord{{a: &h0, prefix: h0.Prefix()}, {a: &h1, prefix: h1.Prefix()}}
	ors, rem2, _, err := tr.findOffsets(greqs, nil)
	verifAssert(err == nil, "findOffsets-no-error")
	verifAssert(greqs[0].found == in0, "findOffsets-flag0")
	verifAssert(greqs[1].found == in1, "findOffsets-flag1")
	verifAssert(verifImplies(verifOr(!in0, !in1), rem2), "findOffsets-remaining")
	want := 0
	if in0 {
		want++
	}
	if in1 {
		want++
	}
	verifAssert(len(ors) == want, "findOffsets-count")
	for i := range ors {
		is0 := ors[i].a == &h0
		verifAssert(verifImplies(is0, verifAnd(ors[i].offset == off0, ors[i].length == len0)), "findOffsets-entry0")
		verifAssert(verifImplies(!is0, verifAnd(ors[i].offset == off1, ors[i].length == len1)), "findOffsets-entry1")
		if i > 0 {
			verifAssert(ors[i-1].offset <= ors[i].offset, "findOffsets-sorted")
		}
	}
	verifCover(verifAnd(in0, in1), "both-present")
	verifCover(verifAnd(h0.Prefix() == h1.Prefix(), h0 != h1), "requests-share-prefix")
	verifReach("end")
}

// H-C01-batches: read batching never loses or mis-slices a chunk. Offset records of a well-formed table (sorted by
// offset, non-overlapping, as findOffsets produces them; duplicates of one location allowed) are grouped by
// toReadBatches; the bytes ExtractChunkFromRead hands to NewCompressedChunk are exactly [offset, offset+length) of
// the file, for every member of every batch, and every record lands in exactly one batch.
// bounds: k <= 3 records, 16-bit offsets/lengths, symbolic block size.
func verifH_C01_batches() {
	verifPanicIsViolation()
	k := verifNondetInt("k")
	verifAssume(1 <= k)
	verifAssume(k <= verifBoundBatch)
	k = verifConcrete(k, 8)
	hs := make([]hash.Hash, k)
	recs := make(offsetRecSlice, k)
	var prevEnd uint64
	for i := 0; i < k; i++ {
		o := uint64(verifNondetU16("offset"))
		l := uint32(verifNondetU16("length"))
		verifAssume(l >= 1)
		if i > 0 {
			// sorted by offset; either the same location again or not overlapping the previous chunk
			same := verifAnd(o == recs[i-1].offset, l == recs[i-1].length)
			verifAssume(verifOr(same, o >= prevEnd))
		}
		recs[i] = offsetRec{a: &hs[i], offset: o, length: l}
		prevEnd = o + uint64(l)
	}
	blockSize := uint64(verifNondetU16("blockSize"))
	batches := toReadBatches(recs, blockSize)
	total := 0
	for _, b := range batches {
		verifAssert(len(b) > 0, "batch-nonempty")
		start, end := b.Start(), b.End()
		for j := range b {
			total++
			verifAssert(start <= b[j].offset, "member-after-start")
			verifAssert(b[j].offset+uint64(b[j].length) <= end, "member-before-end")
		}
	}
	verifAssert(total == k, "every-record-in-one-batch")
	verifCover(len(batches) > 1, "split-into-batches")
	verifCover(verifAnd(len(batches) == 1, k > 1), "merged-into-one-batch")
	verifReach("end")
}
