package nbs

import (
	"errors"
	"path/filepath"
	"time"

	"github.com/dolthub/fslock"

	"github.com/dolthub/dolt/go/store/chunks"
)

var verifLockDir string

// verifFlockHeldElsewhere(true): another opener holds the directory's LOCK file for the rest of the run. Natively a
// second fslock.Lock on the same file takes it (flock(2) conflicts between open file descriptions, also within one
// process); under the symbolic executor the lock stubs answer as fslock documents for a lock held elsewhere (TryLock:
// ErrLocked, LockWithTimeout: ErrTimeout).
func verifFlockHeldElsewhere(held bool) {
	if !held {
		return
	}
	l, err := fslock.New(filepath.Join(verifLockDir, lockFileName))
	if err != nil {
		panic(err)
	}
	if err := l.Lock(); err != nil {
		panic(err)
	}
}

// H-C41-lock-decision: what an opener of a database directory gets from the real newJournalLock, for every
// combination of: the LOCK held by another process or free, the caller waiting (a timeout) or not, the caller asking to
// fail instead of falling back. Free lock: the opener holds the lock and has exclusive access. Lock held elsewhere: the
// opener NEVER gets a lock handle or exclusive access - it gets ErrDatabaseLocked if it asked to fail, read-only access
// and no error otherwise.
func verifH_C41_lock_decision() {
	verifPanicIsViolation()
	dir := verifFSRoot() + "/db"
	verifFSMkdir(dir)
	verifLockDir = dir
	held := verifNondetBool("lock-held-by-another-process")
	verifFlockHeldElsewhere(held)
	timeout := time.Duration(0)
	if verifNondetBool("caller-waits") {
		timeout = time.Millisecond
	}
	failFast := verifNondetBool("fail-on-timeout")
	lock, mode, err := newJournalLock(dir, timeout, failFast)
	if !held {
		verifAssert(err == nil, "free-lock:no-error")
		verifAssert(lock != nil, "free-lock:lock-held-by-the-opener")
		verifAssert(mode == chunks.ExclusiveAccessMode_Exclusive, "free-lock:exclusive-access")
	} else {
		verifAssert(lock == nil, "held-elsewhere:no-lock-handle")
		verifAssert(mode != chunks.ExclusiveAccessMode_Exclusive, "held-elsewhere:never-exclusive")
		if failFast {
			verifAssert(errors.Is(err, ErrDatabaseLocked), "held-elsewhere:fail-fast-caller-gets-ErrDatabaseLocked")
		} else {
			verifAssert(err == nil, "held-elsewhere:fallback-is-not-an-error")
			verifAssert(mode == chunks.ExclusiveAccessMode_ReadOnly, "held-elsewhere:fallback-is-read-only")
		}
	}
	verifCover(held, "contended")
	verifReach("end")
}
