package message

const verifBoundLeafRows = 3
const verifBoundChildren = 4
