package message

import (
	"context"

	"github.com/dolthub/dolt/go/store/hash"
	"github.com/dolthub/dolt/go/store/pool"
	"github.com/dolthub/dolt/go/store/val"
)

func verifNondetHash(label string) hash.Hash {
	var h hash.Hash
	copy(h[:], verifNondetBytes(label, hash.ByteLen))
	return h
}

func verifReported(seen []hash.Hash, h hash.Hash) bool {
	r := false
	for _, s := range seen {
		r = verifOr(r, s == h)
	}
	return r
}

// H-C09-prolly-leaf: a leaf node of a prolly map (table rows, index entries) written by the real
// ProllyMapSerializer through the real flatbuffers builder: value tuples of the shape (BIGINT, BLOB address,
// adaptive TEXT, JSON address, BIGINT), every column NULL or not (trailing NULLs are trimmed from the stored tuple),
// the adaptive column inline or out of band, every address symbolic and not the empty address. The real
// message.WalkAddresses must report every address a reader of these rows can dereference - each non-NULL address column
// and each out-of-band adaptive value - and nothing else.
func verifH_C09_prolly_leaf() {
	verifPanicIsViolation()
	verifUnwind(1024)
	bp := pool.NewBuffPool()
	valDesc := val.NewTupleDescriptor(
		val.Type{Enc: val.Int64Enc, Nullable: true},
		val.Type{Enc: val.BytesAddrEnc, Nullable: true},
		val.Type{Enc: val.StringAdaptiveEnc, Nullable: true},
		val.Type{Enc: val.JSONAddrEnc, Nullable: true},
		val.Type{Enc: val.Int64Enc, Nullable: true})
	n := verifConcrete(verifNondetIntRange("rows", 1, verifBoundLeafRows), 4)
	var keys, values [][]byte
	var want []hash.Hash
	zero := hash.Hash{}
	for i := 0; i < n; i++ {
		tag := string(rune('0' + i))
		fields := make([][]byte, 5)
		if verifNondetBool("int-a-set-" + tag) {
			fields[0] = verifNondetBytes("int-a-"+tag, 8)
		}
		if verifNondetBool("blob-set-" + tag) {
			h := verifNondetHash("blob-addr-" + tag)
			verifAssume(h != zero)
			fields[1] = h[:]
			want = append(want, h)
		}
		switch verifConcrete(verifNondetIntRange("text-"+tag, 0, 2), 4) {
		case 1: // inline: a zero byte, then the bytes
			fields[2] = append([]byte{0}, verifNondetBytes("text-inline-"+tag, 2)...)
		case 2: // out of band: the length as a varint (one non-zero byte here), then the address
			l := verifNondetU8("text-length-" + tag)
			verifAssume(verifAnd(l >= 1, l < 0x80))
			h := verifNondetHash("text-addr-" + tag)
			fields[2] = append([]byte{l}, h[:]...)
			want = append(want, h)
		}
		if verifNondetBool("json-set-" + tag) {
			h := verifNondetHash("json-addr-" + tag)
			verifAssume(h != zero)
			fields[3] = h[:]
			want = append(want, h)
		}
		if verifNondetBool("int-b-set-" + tag) {
			fields[4] = verifNondetBytes("int-b-"+tag, 8)
		}
		values = append(values, val.NewTuple(bp, fields...))
		keys = append(keys, val.NewTuple(bp, []byte{byte(i), 0, 0, 0, 0, 0, 0, 0}))
	}
	msg := NewProllyMapSerializer(valDesc, bp).Serialize(keys, values, nil, 0)
	var seen []hash.Hash
	err := WalkAddresses(context.Background(), msg, func(ctx context.Context, a hash.Hash) error {
		seen = append(seen, a)
		return nil
	})
	verifAssert(err == nil, "walk-ok")
	for _, h := range want {
		verifAssert(verifReported(seen, h), "every-address-of-the-rows-is-reported")
	}
	verifAssert(len(seen) == len(want), "nothing-else-is-reported")
	verifObserve("reported", uint64(len(seen)))
	verifCover(len(want) > 0, "some-address")
	verifReach("end")
}

// H-C09-prolly-internal: an internal node (level 1) holds one child address per key: every child is reported.
func verifH_C09_prolly_internal() {
	verifPanicIsViolation()
	verifUnwind(1024)
	bp := pool.NewBuffPool()
	valDesc := val.NewTupleDescriptor(val.Type{Enc: val.Int64Enc, Nullable: true})
	n := verifConcrete(verifNondetIntRange("children", 1, verifBoundChildren), 4)
	var keys, refs [][]byte
	var want []hash.Hash
	subtrees := make([]uint64, n)
	for i := 0; i < n; i++ {
		h := verifNondetHash("child-" + string(rune('0'+i)))
		want = append(want, h)
		refs = append(refs, append([]byte{}, h[:]...))
		keys = append(keys, val.NewTuple(bp, []byte{byte(i), 0, 0, 0, 0, 0, 0, 0}))
		subtrees[i] = uint64(verifNondetU8("subtree-" + string(rune('0'+i))))
	}
	msg := NewProllyMapSerializer(valDesc, bp).Serialize(keys, refs, subtrees, 1)
	var seen []hash.Hash
	err := WalkAddresses(context.Background(), msg, func(ctx context.Context, a hash.Hash) error {
		seen = append(seen, a)
		return nil
	})
	verifAssert(err == nil, "walk-ok")
	verifAssert(len(seen) == n, "one-address-per-child")
	for i, h := range want {
		if i < len(seen) {
			verifAssert(seen[i] == h, "children-in-order")
		}
	}
	verifReach("end")
}

func verifWalkAll(msg []byte) ([]hash.Hash, error) {
	var seen []hash.Hash
	err := WalkAddresses(context.Background(), msg, func(ctx context.Context, a hash.Hash) error {
		seen = append(seen, a)
		return nil
	})
	return seen, err
}

// H-C09-address-nodes: the other node formats that hold addresses, each written by its real serializer with 1..3
// symbolic addresses: an address map (refs: store root, stash list; leaf and internal node), a commit closure (leaf:
// the commit addresses are in the keys after the 8-byte height; internal: child addresses), a blob (internal node: child
// addresses; a leaf holds none) and a merge artifact node (leaf: an address column in the key tuple; internal: child
// addresses). Every address is reported, and nothing else.
func verifH_C09_address_nodes() {
	verifPanicIsViolation()
	verifUnwind(1024)
	bp := pool.NewBuffPool()
	n := verifConcrete(verifNondetIntRange("entries", 1, verifBoundChildren), 4)
	kind := verifConcrete(verifNondetIntRange("node", 0, 6), 8)
	var keys, vals [][]byte
	var want []hash.Hash
	subtrees := make([]uint64, n)
	for i := 0; i < n; i++ {
		h := verifNondetHash("addr-" + string(rune('0'+i)))
		want = append(want, h)
		subtrees[i] = 1
		switch kind {
		case 0, 1: // address map: names -> addresses (leaf), names -> children (internal)
			keys = append(keys, []byte{'r', byte('a' + i)})
			vals = append(vals, append([]byte{}, h[:]...))
		case 2: // commit closure leaf: key = height (8 bytes) then the commit address; no values
			keys = append(keys, append([]byte{0, 0, 0, 0, 0, 0, 0, byte(i + 1)}, h[:]...))
			vals = append(vals, []byte{})
		case 3: // commit closure internal
			keys = append(keys, append([]byte{0, 0, 0, 0, 0, 0, 0, byte(i + 1)}, make([]byte, hash.ByteLen)...))
			vals = append(vals, append([]byte{}, h[:]...))
		case 4: // blob internal node
			keys = append(keys, []byte{0})
			vals = append(vals, append([]byte{}, h[:]...))
		case 5: // merge artifact leaf: key tuple (BIGINT, commit address)
			verifAssume(h != hash.Hash{})
			keys = append(keys, val.NewTuple(bp, []byte{byte(i), 0, 0, 0, 0, 0, 0, 0}, h[:]))
			vals = append(vals, val.NewTuple(bp, []byte{1}))
		case 6: // merge artifact internal
			keys = append(keys, val.NewTuple(bp, []byte{byte(i), 0, 0, 0, 0, 0, 0, 0}, make([]byte, hash.ByteLen)))
			vals = append(vals, append([]byte{}, h[:]...))
		}
	}
	artKeyDesc := val.NewTupleDescriptor(val.Type{Enc: val.Int64Enc}, val.Type{Enc: val.CommitAddrEnc})
	var msg []byte
	switch kind {
	case 0:
		msg = NewAddressMapSerializer(bp).Serialize(keys, vals, subtrees, 0)
	case 1:
		msg = NewAddressMapSerializer(bp).Serialize(keys, vals, subtrees, 1)
	case 2:
		msg = NewCommitClosureSerializer(bp).Serialize(keys, vals, subtrees, 0)
	case 3:
		msg = NewCommitClosureSerializer(bp).Serialize(keys, vals, subtrees, 1)
	case 4:
		msg = NewBlobSerializer(bp).Serialize(keys, vals, subtrees, 1)
	case 5:
		msg = NewMergeArtifactSerializer(artKeyDesc, bp).Serialize(keys, vals, subtrees, 0)
	case 6:
		msg = NewMergeArtifactSerializer(artKeyDesc, bp).Serialize(keys, vals, subtrees, 1)
	}
	seen, err := verifWalkAll(msg)
	verifAssert(err == nil, "walk-ok")
	for _, h := range want {
		verifAssert(verifReported(seen, h), "every-address-is-reported")
	}
	verifAssert(len(seen) == len(want), "nothing-else-is-reported")
	verifReach("end")
}

// H-C09-prolly-leaf-adaptive: as H-C09-prolly-leaf for a table whose only out-of-line values are adaptive ones (the
// default for new tables): value tuples (BIGINT, adaptive TEXT, BIGINT) with no classic address column at all.
func verifH_C09_prolly_leaf_adaptive() {
	verifPanicIsViolation()
	verifUnwind(1024)
	bp := pool.NewBuffPool()
	valDesc := val.NewTupleDescriptor(
		val.Type{Enc: val.Int64Enc, Nullable: true},
		val.Type{Enc: val.StringAdaptiveEnc, Nullable: true},
		val.Type{Enc: val.Int64Enc, Nullable: true})
	n := verifConcrete(verifNondetIntRange("rows", 1, verifBoundLeafRows), 4)
	var keys, values [][]byte
	var want []hash.Hash
	for i := 0; i < n; i++ {
		tag := string(rune('0' + i))
		fields := make([][]byte, 3)
		if verifNondetBool("int-a-set-" + tag) {
			fields[0] = verifNondetBytes("int-a-"+tag, 8)
		}
		switch verifConcrete(verifNondetIntRange("text-"+tag, 0, 2), 4) {
		case 1:
			fields[1] = append([]byte{0}, verifNondetBytes("text-inline-"+tag, 2)...)
		case 2:
			l := verifNondetU8("text-length-" + tag)
			verifAssume(verifAnd(l >= 1, l < 0x80))
			h := verifNondetHash("text-addr-" + tag)
			fields[1] = append([]byte{l}, h[:]...)
			want = append(want, h)
		}
		if verifNondetBool("int-b-set-" + tag) {
			fields[2] = verifNondetBytes("int-b-"+tag, 8)
		}
		values = append(values, val.NewTuple(bp, fields...))
		keys = append(keys, val.NewTuple(bp, []byte{byte(i), 0, 0, 0, 0, 0, 0, 0}))
	}
	msg := NewProllyMapSerializer(valDesc, bp).Serialize(keys, values, nil, 0)
	seen, err := verifWalkAll(msg)
	verifAssert(err == nil, "walk-ok")
	for _, h := range want {
		verifAssert(verifReported(seen, h), "every-address-of-the-rows-is-reported")
	}
	verifAssert(len(seen) == len(want), "nothing-else-is-reported")
	verifCover(len(want) > 0, "some-address")
	verifReach("end")
}
