package message

const verifBoundLeafRows = 2
const verifBoundChildren = 3
