package types

import (
	fb "github.com/dolthub/flatbuffers/v23/go"

	"github.com/dolthub/dolt/go/gen/fb/serial"
	"github.com/dolthub/dolt/go/store/hash"
	"github.com/dolthub/dolt/go/store/pool"
	"github.com/dolthub/dolt/go/store/prolly/message"
	"github.com/dolthub/dolt/go/store/val"
)

func verifNondetHash(label string) hash.Hash {
	var h hash.Hash
	copy(h[:], verifNondetBytes(label, hash.ByteLen))
	return h
}

func verifWalk(msg []byte) ([]hash.Hash, error) {
	var seen []hash.Hash
	err := SerialMessage(msg).WalkAddrs(Format_DOLT, func(a hash.Hash) error {
		seen = append(seen, a)
		return nil
	})
	return seen, err
}

func verifReported(seen []hash.Hash, h hash.Hash) bool {
	r := false
	for _, s := range seen {
		r = verifOr(r, s == h)
	}
	return r
}

func verifAddrMap(bp pool.BuffPool, names []string, addrs []hash.Hash) []byte {
	keys := make([][]byte, len(names))
	vals := make([][]byte, len(names))
	sub := make([]uint64, len(names))
	for i := range names {
		keys[i] = []byte(names[i])
		vals[i] = append([]byte{}, addrs[i][:]...)
		sub[i] = 1
	}
	return message.NewAddressMapSerializer(bp).Serialize(keys, vals, sub, 0)
}

// H-C09-table: a table message as the table layer lays it out (serial.Table: schema address, primary index as an
// inline prolly map node, secondary indexes as an inline address map, conflicts {data, our / their / ancestor schema},
// violations, artifacts), written with the generated builders and the real node serializers; every address symbolic
// and not empty, every optional part present or absent (symbolic). SerialMessage.WalkAddrs must report every address
// in it: the schema, each optional address that is set, each secondary index root, and the addresses inside the inline
// primary index node (here: one row with an out-of-line BLOB column).
func verifH_C09_table() {
	verifPanicIsViolation()
	verifUnwind(2048)
	bp := pool.NewBuffPool()
	zero := hash.Hash{}
	var want []hash.Hash
	nonEmpty := func(label string) hash.Hash {
		h := verifNondetHash(label)
		verifAssume(h != zero)
		want = append(want, h)
		return h
	}
	schema := nonEmpty("schema")
	// primary index: a leaf with one row (BIGINT, BLOB address)
	valDesc := val.NewTupleDescriptor(val.Type{Enc: val.Int64Enc, Nullable: true}, val.Type{Enc: val.BytesAddrEnc, Nullable: true})
	blob := nonEmpty("row-blob")
	row := val.NewTuple(bp, []byte{1, 0, 0, 0, 0, 0, 0, 0}, blob[:])
	key := val.NewTuple(bp, []byte{7, 0, 0, 0, 0, 0, 0, 0})
	primary := message.NewProllyMapSerializer(valDesc, bp).Serialize([][]byte{key}, [][]byte{row}, nil, 0)
	// secondary indexes: 0..2 named roots
	nIdx := verifConcrete(verifNondetIntRange("secondary-indexes", 0, 2), 4)
	var names []string
	var roots []hash.Hash
	for i := 0; i < nIdx; i++ {
		names = append(names, "idx"+string(rune('a'+i)))
		roots = append(roots, nonEmpty("index-root-"+string(rune('a'+i))))
	}
	secondary := verifAddrMap(bp, names, roots)

	b := fb.NewBuilder(1024)
	vec := func(bs []byte) fb.UOffsetT { return b.CreateByteVector(bs) }
	var confOff fb.UOffsetT
	hasConf := verifNondetBool("has-conflicts")
	if hasConf {
		d, o, t, a := nonEmpty("conflicts-data"), nonEmpty("conflicts-our-schema"), nonEmpty("conflicts-their-schema"), nonEmpty("conflicts-ancestor-schema")
		dv, ov, tv, av := vec(d[:]), vec(o[:]), vec(t[:]), vec(a[:])
		serial.ConflictsStart(b)
		serial.ConflictsAddData(b, dv)
		serial.ConflictsAddOurSchema(b, ov)
		serial.ConflictsAddTheirSchema(b, tv)
		serial.ConflictsAddAncestorSchema(b, av)
		confOff = serial.ConflictsEnd(b)
	} else {
		ev := vec(zero[:])
		serial.ConflictsStart(b)
		serial.ConflictsAddData(b, ev)
		serial.ConflictsAddOurSchema(b, ev)
		serial.ConflictsAddTheirSchema(b, ev)
		serial.ConflictsAddAncestorSchema(b, ev)
		confOff = serial.ConflictsEnd(b)
	}
	viol, arts := zero, zero
	if verifNondetBool("has-violations") {
		viol = nonEmpty("violations")
	}
	if verifNondetBool("has-artifacts") {
		arts = nonEmpty("artifacts")
	}
	sv, pv, xv, vv, av := vec(schema[:]), vec(primary), vec(secondary), vec(viol[:]), vec(arts[:])
	serial.TableStart(b)
	serial.TableAddSchema(b, sv)
	serial.TableAddPrimaryIndex(b, pv)
	serial.TableAddSecondaryIndexes(b, xv)
	serial.TableAddAutoIncrementValue(b, 5)
	serial.TableAddConflicts(b, confOff)
	serial.TableAddViolations(b, vv)
	serial.TableAddArtifacts(b, av)
	msg := serial.FinishMessage(b, serial.TableEnd(b), []byte(serial.TableFileID))

	seen, err := verifWalk(msg)
	verifAssert(err == nil, "walk-ok")
	for _, h := range want {
		verifAssert(verifReported(seen, h), "every-address-of-the-table-is-reported")
	}
	verifAssert(len(seen) == len(want), "nothing-else-is-reported")
	verifObserve("reported", uint64(len(seen)))
	verifReach("end")
}

// H-C09-root-messages: a root value (tables as an inline address map of 0..2 tables, foreign key collection address
// set or empty), a store root and a stash list (inline address maps of 1..2 refs): every address is reported.
func verifH_C09_root_messages() {
	verifPanicIsViolation()
	verifUnwind(2048)
	bp := pool.NewBuffPool()
	zero := hash.Hash{}
	var want []hash.Hash
	kind := verifConcrete(verifNondetIntRange("message", 0, 2), 4)
	lo := 1
	if kind == 0 {
		lo = 0
	}
	n := verifConcrete(verifNondetIntRange("entries", lo, 2), 4)
	var names []string
	var addrs []hash.Hash
	for i := 0; i < n; i++ {
		h := verifNondetHash("addr-" + string(rune('a'+i)))
		names = append(names, "n"+string(rune('a'+i)))
		addrs = append(addrs, h)
		want = append(want, h)
	}
	am := verifAddrMap(bp, names, addrs)
	b := fb.NewBuilder(1024)
	var msg []byte
	switch kind {
	case 0:
		fk := zero
		if verifNondetBool("has-foreign-keys") {
			fk = verifNondetHash("foreign-keys")
			verifAssume(fk != zero)
			want = append(want, fk)
		}
		tv, fv := b.CreateByteVector(am), b.CreateByteVector(fk[:])
		serial.RootValueStart(b)
		serial.RootValueAddFeatureVersion(b, 7)
		serial.RootValueAddTables(b, tv)
		serial.RootValueAddForeignKeyAddr(b, fv)
		msg = serial.FinishMessage(b, serial.RootValueEnd(b), []byte(serial.RootValueFileID))
	case 1:
		mv := b.CreateByteVector(am)
		serial.StoreRootStart(b)
		serial.StoreRootAddAddressMap(b, mv)
		msg = serial.FinishMessage(b, serial.StoreRootEnd(b), []byte(serial.StoreRootFileID))
	case 2:
		mv := b.CreateByteVector(am)
		serial.StashListStart(b)
		serial.StashListAddAddressMap(b, mv)
		msg = serial.FinishMessage(b, serial.StashListEnd(b), []byte(serial.StashListFileID))
	}
	seen, err := verifWalk(msg)
	verifAssert(err == nil, "walk-ok")
	for _, h := range want {
		verifAssert(verifReported(seen, h), "every-address-is-reported")
	}
	verifAssert(len(seen) == len(want), "nothing-else-is-reported")
	verifReach("end")
}
