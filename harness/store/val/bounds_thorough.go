package val

const verifBoundStr = 5
const verifBoundFields = 4
const verifBoundFieldLen = 4
