package val

import (
	"context"

	"github.com/dolthub/go-mysql-server/sql"

	"github.com/dolthub/dolt/go/store/hash"
	"github.com/dolthub/dolt/go/store/pool"
)

// verifVS is a content-addressed byte store behind the ValueStore interface: WriteBytes of equal contents gives the
// same address, different contents different addresses (addresses are constants derived from the entry number),
// ReadBytes returns what was written.
type verifVS struct {
	items [][]byte
}

func verifAddr(n int) hash.Hash {
	var h hash.Hash
	for i := range h {
		h[i] = byte(0x30 + 16*n + i)
	}
	return h
}

func (v *verifVS) WriteBytes(ctx context.Context, b []byte) (hash.Hash, error) {
	for i, it := range v.items {
		if verifBytesEq(it, b) {
			return verifAddr(i), nil
		}
	}
	v.items = append(v.items, append([]byte(nil), b...))
	return verifAddr(len(v.items) - 1), nil
}

func (v *verifVS) ReadBytes(ctx context.Context, h hash.Hash) ([]byte, error) {
	for i, it := range v.items {
		if verifAddr(i) == h {
			return it, nil
		}
	}
	return nil, nil
}
func (v *verifVS) CompareAdaptive(ctx context.Context, l, r AdaptiveValue, enc Encoding) (int, error) {
	return 0, nil
}
func (v *verifVS) CompareAdaptiveCollatedStrings(ctx context.Context, l, r AdaptiveValue, c sql.CollationID) (int, error) {
	return 0, nil
}

// H-C16-varint: the SQLite4 variable-length integer used for the out-of-band length round-trips every uint64 and
// occupies the documented number of bytes.
func verifH_C16_varint() {
	verifPanicIsViolation()
	x := verifNondetU64("x")
	n, enc := makeVarInt(x, nil)
	verifAssert(n == len(enc), "length-returned")
	want := 9
	switch {
	case x < 241:
		want = 1
	case x < 2288:
		want = 2
	case x < 67824:
		want = 3
	case x < 1<<24:
		want = 4
	case x < 1<<32:
		want = 5
	case x < 1<<40:
		want = 6
	case x < 1<<48:
		want = 7
	case x < 1<<56:
		want = 8
	}
	verifAssert(n == want, "documented-length")
	// decoding needs only the encoded bytes; pad to 9 as the readers do when the value is followed by an address
	buf := make([]byte, 9+hash.ByteLen)
	copy(buf, enc)
	v := AdaptiveValue(buf[:n+hash.ByteLen])
	verifObserve("len", uint64(n))
	if x != 0 {
		verifAssert(v.IsOutOfBand(), "non-zero-length-reads-as-out-of-band")
		verifAssert(uint64(v.getMessageLength()) == x, "length-round-trips")
		verifAssert(v.outOfBandSize() == int64(n+hash.ByteLen), "out-of-band-size")
	}
	verifReach("end")
}

// verifLens: the value lengths tried (around the point where an address, 1..2 length bytes + 20, becomes shorter than
// the inlined value, and around the row-size targets below).
var verifLens = []int{0, 1, 20, 21, 22, 23, 40}

// H-C16-builder: a row of two adaptive (TEXT/BLOB) columns built by the real TupleBuilder with a small row-size
// target. Each value reaches the builder either as bytes (PutAdaptiveBytesFromInline) or as an out-of-band reference to
// the same bytes already in the store (PutAdaptiveBytesFromOutline), symbolic per column.
//  (1) faithful: each field of the built tuple reads back, through the value store, byte for byte;
//  (2) canonical: the tuple's BYTES are the same whichever way the values reached the builder ("the stored form is the
//      same no matter how the value was produced");
//  (3) a row whose all-inline size fits the target keeps every value inline.
func verifH_C16_builder() {
	verifPanicIsViolation()
	verifUnwind(256)
	ctx := context.Background()
	vs := &verifVS{}
	desc := NewTupleDescriptor(Type{Enc: BytesAdaptiveEnc, Nullable: true}, Type{Enc: BytesAdaptiveEnc, Nullable: true})
	target := uint16(verifConcrete(verifNondetIntRange("row-size-target", 0, 3), 8)*20 + 12) // 12, 32, 52, 72
	var vals [2][]byte
	var viaRef [2]bool
	for i := 0; i < 2; i++ {
		l := verifLens[verifConcrete(verifNondetIntRange("length", 0, len(verifLens)-1), 16)]
		vals[i] = make([]byte, l)
		for j := range vals[i] {
			vals[i][j] = byte(0x41 + i + j)
		}
		viaRef[i] = verifNondetBool("given-as-out-of-band-reference")
		if l == 0 {
			viaRef[i] = false // an empty value has no out-of-band form (its length byte would read as the inline marker)
		}
	}
	build := func(ref [2]bool) (Tuple, error) {
		tb := NewTupleBuilder(desc, vs).WithMaxRowSize(target)
		for i := 0; i < 2; i++ {
			if ref[i] {
				addr, err := vs.WriteBytes(ctx, vals[i])
				if err != nil {
					return nil, err
				}
				tb.PutAdaptiveBytesFromOutline(i, NewByteArray(addr, vs).WithMaxByteLength(int64(len(vals[i]))))
			} else if err := tb.PutAdaptiveBytesFromInline(ctx, i, vals[i]); err != nil {
				return nil, err
			}
		}
		return tb.BuildPermissive(ctx, pool.NewBuffPool())
	}
	canon, err := build([2]bool{false, false})
	verifAssert(err == nil, "build-from-bytes-ok")
	got, err2 := build(viaRef)
	verifAssert(err2 == nil, "build-ok")
	if err != nil || err2 != nil {
		return
	}
	inlineTotal := 0
	for i := 0; i < 2; i++ {
		f := AdaptiveValue(got.GetField(i))
		b, rerr := f.getUnderlyingBytes(ctx, vs)
		verifAssert(rerr == nil, "field-readable")
		verifAssert(verifBytesEq(b, vals[i]), "field-reads-back-byte-for-byte")
		inlineTotal += 1 + len(vals[i])
	}
	verifObserve("len", uint64(len(got)))
	verifAssert(verifBytesEq([]byte(got), []byte(canon)), "stored-form-independent-of-how-the-value-was-produced")
	if inlineTotal <= int(target) {
		for i := 0; i < 2; i++ {
			f := AdaptiveValue(canon.GetField(i))
			verifAssert(!f.IsOutOfBand(), "row-that-fits-keeps-values-inline")
		}
	}
	verifCover(verifOr(viaRef[0], viaRef[1]), "some-value-given-by-reference")
	verifReach("end")
}
