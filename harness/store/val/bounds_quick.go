package val

const verifBoundStr = 3
const verifBoundFields = 3
const verifBoundFieldLen = 2
