package val

import (
	"math"
)

func verifSign(c int) int {
	if c < 0 {
		return -1
	}
	if c > 0 {
		return 1
	}
	return 0
}

// H-C15-codec-ints: every fixed-width integer encoding round-trips every value of its Go type and its compare
// function is the order of the values; byte strings round-trip. Full width: all 2^8 .. 2^64 values per type.
func verifH_C15_codec_ints() {
	verifPanicIsViolation()
	{
		a, b := verifNondetI8("a8"), verifNondetI8("b8")
		ba, bb := make([]byte, 1), make([]byte, 1)
		writeInt8(ba, a)
		writeInt8(bb, b)
		verifAssert(readInt8(ba) == a, "int8-roundtrip")
		c := compareInt8(readInt8(ba), readInt8(bb))
		verifAssert((c < 0) == (a < b), "int8-lt")
		verifAssert((c == 0) == (a == b), "int8-eq")
		ua, ub := uint8(a), uint8(b)
		writeUint8(ba, ua)
		writeUint8(bb, ub)
		verifAssert(readUint8(ba) == ua, "uint8-roundtrip")
		c = compareUint8(readUint8(ba), readUint8(bb))
		verifAssert((c < 0) == (ua < ub), "uint8-lt")
		verifAssert((c == 0) == (ua == ub), "uint8-eq")
	}
	{
		a, b := verifNondetI16("a16"), verifNondetI16("b16")
		ba, bb := make([]byte, 2), make([]byte, 2)
		writeInt16(ba, a)
		writeInt16(bb, b)
		verifAssert(readInt16(ba) == a, "int16-roundtrip")
		c := compareInt16(readInt16(ba), readInt16(bb))
		verifAssert((c < 0) == (a < b), "int16-lt")
		verifAssert((c == 0) == (a == b), "int16-eq")
		ua, ub := uint16(a), uint16(b)
		WriteUint16(ba, ua)
		WriteUint16(bb, ub)
		verifAssert(ReadUint16(ba) == ua, "uint16-roundtrip")
		c = compareUint16(ReadUint16(ba), ReadUint16(bb))
		verifAssert((c < 0) == (ua < ub), "uint16-lt")
		verifAssert((c == 0) == (ua == ub), "uint16-eq")
		writeEnum(ba, ua)
		writeEnum(bb, ub)
		verifAssert(readEnum(ba) == ua, "enum-roundtrip")
		verifAssert((compareEnum(readEnum(ba), readEnum(bb)) < 0) == (ua < ub), "enum-lt")
	}
	{
		a, b := verifNondetI32("a32"), verifNondetI32("b32")
		ba, bb := make([]byte, 4), make([]byte, 4)
		writeInt32(ba, a)
		writeInt32(bb, b)
		verifAssert(readInt32(ba) == a, "int32-roundtrip")
		c := compareInt32(readInt32(ba), readInt32(bb))
		verifAssert((c < 0) == (a < b), "int32-lt")
		verifAssert((c == 0) == (a == b), "int32-eq")
		ua, ub := uint32(a), uint32(b)
		writeUint32(ba, ua)
		writeUint32(bb, ub)
		verifAssert(ReadUint32(ba) == ua, "uint32-roundtrip")
		c = compareUint32(ReadUint32(ba), ReadUint32(bb))
		verifAssert((c < 0) == (ua < ub), "uint32-lt")
		verifAssert((c == 0) == (ua == ub), "uint32-eq")
	}
	{
		a, b := verifNondetI64("a64"), verifNondetI64("b64")
		ba, bb := make([]byte, 8), make([]byte, 8)
		writeInt64(ba, a)
		writeInt64(bb, b)
		verifAssert(readInt64(ba) == a, "int64-roundtrip")
		c := compareInt64(readInt64(ba), readInt64(bb))
		verifAssert((c < 0) == (a < b), "int64-lt")
		verifAssert((c == 0) == (a == b), "int64-eq")
		writeTime(ba, a)
		writeTime(bb, b)
		verifAssert(readTime(ba) == a, "time-roundtrip")
		verifAssert((compareTime(readTime(ba), readTime(bb)) < 0) == (a < b), "time-lt")
		ua, ub := uint64(a), uint64(b)
		writeUint64(ba, ua)
		writeUint64(bb, ub)
		verifAssert(readUint64(ba) == ua, "uint64-roundtrip")
		c = compareUint64(readUint64(ba), readUint64(bb))
		verifAssert((c < 0) == (ua < ub), "uint64-lt")
		verifAssert((c == 0) == (ua == ub), "uint64-eq")
		writeBit64(ba, ua)
		writeBit64(bb, ub)
		verifAssert(readBit64(ba) == ua, "bit64-roundtrip")
		verifAssert((compareBit64(readBit64(ba), readBit64(bb)) < 0) == (ua < ub), "bit64-lt")
		writeSet(ba, ua)
		writeSet(bb, ub)
		verifAssert(readSet(ba) == ua, "set-roundtrip")
		verifAssert((compareSet(readSet(ba), readSet(bb)) < 0) == (ua < ub), "set-lt")
	}
	verifReach("end")
}

// H-C15-codec-year: YEAR round-trips on its documented domain {0} u [1901, 2155] and orders like the values.
func verifH_C15_codec_year() {
	verifPanicIsViolation()
	a, b := verifNondetI16("a"), verifNondetI16("b")
	verifAssume(verifOr(a == 0, verifAnd(a >= 1901, a <= 2155)))
	verifAssume(verifOr(b == 0, verifAnd(b >= 1901, b <= 2155)))
	ba, bb := make([]byte, 1), make([]byte, 1)
	writeYear(ba, a)
	writeYear(bb, b)
	verifAssert(readYear(ba) == a, "year-roundtrip")
	c := compareYear(readYear(ba), readYear(bb))
	verifAssert((c < 0) == (a < b), "year-lt")
	verifAssert((c == 0) == (a == b), "year-eq")
	verifCover(a == 0, "zero-year")
	verifCover(a == 2155, "max-year")
	verifReach("end")
}

// H-C15-codec-floats: float encodings round-trip bit for bit and compare as IEEE order on non-NaN values
// (-0 == +0).
func verifH_C15_codec_floats() {
	verifPanicIsViolation()
	{
		ab, bb := verifNondetU64("a"), verifNondetU64("b")
		a, b := math.Float64frombits(ab), math.Float64frombits(bb)
		verifAssume(!math.IsNaN(a))
		verifAssume(!math.IsNaN(b))
		x, y := make([]byte, 8), make([]byte, 8)
		writeFloat64(x, a)
		writeFloat64(y, b)
		verifAssert(math.Float64bits(readFloat64(x)) == ab, "float64-roundtrip-bits")
		c := compareFloat64(readFloat64(x), readFloat64(y))
		verifAssert((c < 0) == (a < b), "float64-lt")
		verifAssert((c > 0) == (a > b), "float64-gt")
		verifAssert((c == 0) == (a == b), "float64-eq")
		c2 := compareFloat64(readFloat64(y), readFloat64(x))
		verifAssert(verifSign(c) == -verifSign(c2), "float64-antisymmetric")
	}
	{
		ab, bb := verifNondetU32("a32"), verifNondetU32("b32")
		a, b := math.Float32frombits(ab), math.Float32frombits(bb)
		verifAssume(!(a != a))
		verifAssume(!(b != b))
		x, y := make([]byte, 4), make([]byte, 4)
		writeFloat32(x, a)
		writeFloat32(y, b)
		verifAssert(math.Float32bits(readFloat32(x)) == ab, "float32-roundtrip-bits")
		c := compareFloat32(readFloat32(x), readFloat32(y))
		verifAssert((c < 0) == (a < b), "float32-lt")
		verifAssert((c == 0) == (a == b), "float32-eq")
	}
	verifReach("end")
}

// H-C15-codec-bytes: byte strings, strings, hash128, cells and addresses round-trip; comparison is byte order.
func verifH_C15_codec_bytes() {
	verifPanicIsViolation()
	n := verifNondetInt("n")
	verifAssume(0 <= n)
	verifAssume(n <= verifBoundStr)
	n = verifConcrete(n, 16)
	m := verifNondetInt("m")
	verifAssume(0 <= m)
	verifAssume(m <= verifBoundStr)
	m = verifConcrete(m, 16)
	a, b := verifNondetBytes("a", n), verifNondetBytes("b", m)
	ea, eb := make([]byte, n+1), make([]byte, m+1)
	writeByteString(ea, a)
	writeByteString(eb, b)
	verifAssert(verifBytesEq(readByteString(ea), a), "bytestring-roundtrip")
	verifAssert(ea[n] == 0, "bytestring-terminator")
	c := compareByteString(readByteString(ea), readByteString(eb))
	// reference: lexicographic byte order
	ref := 0
	for i := 0; i < n && i < m && ref == 0; i++ {
		if a[i] < b[i] {
			ref = -1
		} else if a[i] > b[i] {
			ref = 1
		}
	}
	if ref == 0 {
		if n < m {
			ref = -1
		} else if n > m {
			ref = 1
		}
	}
	verifAssert(verifSign(c) == ref, "bytestring-order")
	writeString(ea, string(a))
	verifAssert(readString(ea) == string(a), "string-roundtrip")
	verifAssert(verifSign(compareString(string(a), string(b))) == ref, "string-order")

	h := verifNondetBytes("h128", int(hash128Size))
	eh := make([]byte, hash128Size)
	writeHash128(eh, h)
	verifAssert(verifBytesEq(readHash128(eh), h), "hash128-roundtrip")
	var cell Cell
	copy(cell[:], verifNondetBytes("cell", int(cellSize)))
	ec := make([]byte, cellSize)
	writeCell(ec, cell)
	verifAssert(readCell(ec) == cell, "cell-roundtrip")
	ad := verifNondetBytes("addr", 20)
	eaddr := make([]byte, 20)
	writeAddr(eaddr, ad)
	got := readAddr(eaddr)
	verifAssert(verifBytesEq(got[:], ad), "addr-roundtrip")
	verifReach("end")
}
