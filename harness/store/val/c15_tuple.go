package val

import (
	"context"

	"github.com/dolthub/dolt/go/store/pool"
)

// verifFields makes k fields, each NULL or 1..verifBoundFieldLen symbolic bytes.
func verifFields(k int) [][]byte {
	fs := make([][]byte, k)
	for i := 0; i < k; i++ {
		l := verifNondetInt("fieldlen")
		verifAssume(0 <= l)
		verifAssume(l <= verifBoundFieldLen)
		l = verifConcrete(l, 16)
		if l == 0 {
			fs[i] = nil
		} else {
			fs[i] = verifNondetBytes("field", l)
		}
	}
	return fs
}

// H-C15-tuple: NewTuple / Count / GetField / GetOffset agree field-wise (DESIGN Appendix B.6): GetField(i) returns
// field i byte for byte, NULL for NULL, Count excludes trailing NULLs, and value lists equal up to trailing NULLs
// give identical bytes. The unsafe reads in Count/GetField stay inside the tuple (checked by the executor).
// bounds: k <= verifBoundFields fields of 0..verifBoundFieldLen bytes (0 = NULL).
func verifH_C15_tuple() {
	verifPanicIsViolation()
	k := verifNondetInt("k")
	verifAssume(0 <= k)
	verifAssume(k <= verifBoundFields)
	k = verifConcrete(k, 8)
	fs := verifFields(k)
	tup := NewTuple(pool.NewBuffPool(), fs...)
	want := k
	for want > 0 && fs[want-1] == nil {
		want--
	}
	verifAssert(tup.Count() == want, "count-excludes-trailing-nulls")
	total := 0
	for i := 0; i < k; i++ {
		got := tup.GetField(i)
		if fs[i] == nil {
			verifAssert(got == nil, "null-field-is-null")
			verifAssert(tup.FieldIsNull(i), "FieldIsNull")
		} else {
			verifAssert(got != nil, "nonnull-field-not-null")
			verifAssert(verifBytesEq(got, fs[i]), "field-bytes")
			off, ok := tup.GetOffset(i)
			verifAssert(ok, "GetOffset-ok")
			verifAssert(off == total, "GetOffset-start")
		}
		total += len(fs[i])
	}
	verifAssert(tup.GetField(k) == nil, "field-beyond-count-is-null")
	verifAssert(len(tup) == total+int(offsetsSize(want))+int(countSize), "tuple-length")
	// canonical encoding: adding a trailing NULL does not change the bytes
	tup2 := NewTuple(pool.NewBuffPool(), append(append([][]byte{}, fs...), nil)...)
	verifAssert(verifBytesEq(tup, tup2), "trailing-null-canonical")
	verifReach("end")
}

// H-C15-compare: DefaultTupleComparator over descriptors of fixed-width columns: the fixed-access fast path and the
// GetField path give the same answer, the answer is the lexicographic field-wise compare with NULL first, and it is
// antisymmetric. Tuples are built by the real NewTuple from symbolic values through the real write* codecs.
// bounds: 2 columns chosen from {int8, uint16, int32, uint64}, column 2 nullable or not, symbolic values.
func verifH_C15_compare() {
	verifPanicIsViolation()
	encs := []Encoding{Int8Enc, Uint16Enc, Int32Enc, Uint64Enc}
	e0 := verifConcrete(verifIndex("enc0", len(encs)), 8)
	e1 := verifConcrete(verifIndex("enc1", len(encs)), 8)
	nullable1 := verifNondetBool("nullable1")
	var n1 bool
	if nullable1 {
		n1 = true
	}
	types := []Type{{Enc: encs[e0]}, {Enc: encs[e1], Nullable: n1}}
	td := NewTupleDescriptor(types...)
	slow := td.WithoutFixedAccess()

	la, lav := verifEncoded(encs[e0], "l0")
	lb, lbv := verifEncoded(encs[e1], "l1")
	ra, rav := verifEncoded(encs[e0], "r0")
	rb, rbv := verifEncoded(encs[e1], "r1")
	lnull, rnull := false, false
	if n1 {
		if verifNondetBool("lnull") {
			lb, lnull = nil, true
		}
		if verifNondetBool("rnull") {
			rb, rnull = nil, true
		}
	}
	left := NewTuple(pool.NewBuffPool(), la, lb)
	right := NewTuple(pool.NewBuffPool(), ra, rb)
	ctx := context.Background()
	c1, err1 := td.Compare(ctx, left, right)
	c2, err2 := slow.Compare(ctx, left, right)
	verifAssert(err1 == nil, "no-error-fast")
	verifAssert(err2 == nil, "no-error-slow")
	verifAssert(verifSign(c1) == verifSign(c2), "fast-path-agrees-with-field-path")
	// reference: field-wise, NULL first
	ref := 0
	if lav < rav {
		ref = -1
	} else if lav > rav {
		ref = 1
	} else if lnull || rnull {
		if lnull && !rnull {
			ref = -1
		} else if !lnull && rnull {
			ref = 1
		}
	} else if lbv < rbv {
		ref = -1
	} else if lbv > rbv {
		ref = 1
	}
	verifAssert(verifSign(c1) == ref, "lexicographic-null-first")
	c3, _ := td.Compare(ctx, right, left)
	verifAssert(verifSign(c3) == -verifSign(c1), "antisymmetric")
	verifCover(len(td.fast) == 2, "fast-path-covers-both-columns")
	verifCover(len(td.fast) == 1, "fast-path-covers-first-column-only")
	verifReach("end")
}

func verifIndex(label string, n int) int {
	i := verifNondetInt(label)
	verifAssume(0 <= i)
	verifAssume(i < n)
	return i
}

// verifEncoded returns the encoding of a fresh symbolic value of the column type and the value as a signed 128-bit
// style pair collapsed to int64 order key (values are widened so that one comparison serves all four types).
func verifEncoded(enc Encoding, label string) ([]byte, int64) {
	switch enc {
	case Int8Enc:
		v := verifNondetI8(label)
		b := make([]byte, 1)
		writeInt8(b, v)
		return b, int64(v)
	case Uint16Enc:
		v := verifNondetU16(label)
		b := make([]byte, 2)
		WriteUint16(b, v)
		return b, int64(v)
	case Int32Enc:
		v := verifNondetI32(label)
		b := make([]byte, 4)
		writeInt32(b, v)
		return b, int64(v)
	default:
		v := verifNondetU64(label)
		verifAssume(v < 1<<62)
		b := make([]byte, 8)
		writeUint64(b, v)
		return b, int64(v)
	}
}

// H-C15-compare-dispatch: the per-encoding dispatch of compare() (what DefaultTupleComparator and TupleDesc.Compare use
// for every field) orders two encoded fields like the values they encode, for every fixed-width encoding: the
// encoded bytes come from the real writers, the expected order from the Go values. One encoding per path (symbolic
// selector), full value range of each type (YEAR on its documented domain {0} u [1901,2155], floats non-NaN).
func verifH_C15_compare_dispatch() {
	verifPanicIsViolation()
	ctx := context.Background()
	which := verifConcrete(verifNondetIntRange("encoding", 0, 12), 16)
	a, b := verifNondetU64("a"), verifNondetU64("b")
	var la, lb []byte
	var enc Encoding
	want := 0 // sign of (value a ? value b)
	sgn := func(lt, eq bool) int {
		if lt {
			return -1
		}
		if eq {
			return 0
		}
		return 1
	}
	switch which {
	case 0:
		enc, la, lb = Int8Enc, make([]byte, 1), make([]byte, 1)
		writeInt8(la, int8(a))
		writeInt8(lb, int8(b))
		want = sgn(int8(a) < int8(b), int8(a) == int8(b))
	case 1:
		enc, la, lb = Uint8Enc, make([]byte, 1), make([]byte, 1)
		writeUint8(la, uint8(a))
		writeUint8(lb, uint8(b))
		want = sgn(uint8(a) < uint8(b), uint8(a) == uint8(b))
	case 2:
		enc, la, lb = Int16Enc, make([]byte, 2), make([]byte, 2)
		writeInt16(la, int16(a))
		writeInt16(lb, int16(b))
		want = sgn(int16(a) < int16(b), int16(a) == int16(b))
	case 3:
		enc, la, lb = Uint16Enc, make([]byte, 2), make([]byte, 2)
		WriteUint16(la, uint16(a))
		WriteUint16(lb, uint16(b))
		want = sgn(uint16(a) < uint16(b), uint16(a) == uint16(b))
	case 4:
		enc, la, lb = Int32Enc, make([]byte, 4), make([]byte, 4)
		writeInt32(la, int32(a))
		writeInt32(lb, int32(b))
		want = sgn(int32(a) < int32(b), int32(a) == int32(b))
	case 5:
		enc, la, lb = Uint32Enc, make([]byte, 4), make([]byte, 4)
		writeUint32(la, uint32(a))
		writeUint32(lb, uint32(b))
		want = sgn(uint32(a) < uint32(b), uint32(a) == uint32(b))
	case 6:
		enc, la, lb = Int64Enc, make([]byte, 8), make([]byte, 8)
		writeInt64(la, int64(a))
		writeInt64(lb, int64(b))
		want = sgn(int64(a) < int64(b), int64(a) == int64(b))
	case 7:
		enc, la, lb = Uint64Enc, make([]byte, 8), make([]byte, 8)
		writeUint64(la, a)
		writeUint64(lb, b)
		want = sgn(a < b, a == b)
	case 8:
		enc, la, lb = Bit64Enc, make([]byte, 8), make([]byte, 8)
		writeBit64(la, a)
		writeBit64(lb, b)
		want = sgn(a < b, a == b)
	case 9:
		ya, yb := int16(a), int16(b)
		verifAssume(verifOr(ya == 0, verifAnd(ya >= 1901, ya <= 2155)))
		verifAssume(verifOr(yb == 0, verifAnd(yb >= 1901, yb <= 2155)))
		enc, la, lb = YearEnc, make([]byte, 1), make([]byte, 1)
		writeYear(la, ya)
		writeYear(lb, yb)
		want = sgn(ya < yb, ya == yb)
	case 10:
		enc, la, lb = EnumEnc, make([]byte, 2), make([]byte, 2)
		writeEnum(la, uint16(a))
		writeEnum(lb, uint16(b))
		want = sgn(uint16(a) < uint16(b), uint16(a) == uint16(b))
	case 11:
		enc, la, lb = SetEnc, make([]byte, 8), make([]byte, 8)
		writeSet(la, a)
		writeSet(lb, b)
		want = sgn(a < b, a == b)
	case 12:
		enc, la, lb = TimeEnc, make([]byte, 8), make([]byte, 8)
		writeTime(la, int64(a))
		writeTime(lb, int64(b))
		want = sgn(int64(a) < int64(b), int64(a) == int64(b))
	}
	got, err := compare(ctx, Type{Enc: enc}, la, lb, nil)
	verifObserve("sign", uint64(verifSign(got)+1))
	verifAssert(err == nil, "no-error")
	verifAssert(verifSign(got) == want, "compare-orders-like-the-values")
	// NULL sorts first, through the same entry point
	gn, _ := compare(ctx, Type{Enc: enc}, nil, lb, nil)
	verifAssert(gn < 0, "null-first")
	gg, _ := compare(ctx, Type{Enc: enc}, la, nil, nil)
	verifAssert(gg > 0, "null-first-right")
	verifCover(want == 0, "equal-values")
	verifReach("end")
}
