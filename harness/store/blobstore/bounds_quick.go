package blobstore

const verifBoundBlob = 3
const verifBoundVer = 1
