package blobstore

const verifBoundBlob = 6
const verifBoundVer = 2
