package blobstore

import (
	"context"
	"io"
)

// Documented meaning of a BlobRange (range.go): "Offset is the beginning of the range and Length is the size. If
// Length is 0 that means all data beyond offset will be read. Lengths cannot be negative. Negative offsets indicate
// distance from the end of the blob." Reference resolution against a blob of size S, on the documented domain
// (-S <= offset <= S, 0 <= length): start = offset (or S+offset), count = length clamped to what is left, 0 = rest.
func verifRefRange(size, offset, length int64) (start, count int64) {
	start = offset
	if offset < 0 {
		start = size + offset
	}
	rest := size - start
	count = length
	if length == 0 {
		count = rest
	}
	if count > rest {
		count = rest
	}
	return
}

// H-C42-range: positiveRange for EVERY blob size, offset and length of the documented domain.
// bounds: size <= 2^61, length <= 2^61, |offset| <= size. Outside: offset+length is an int64 sum, so for sizes/lengths
// around 2^62 and above it wraps and the clamp is skipped (found by the solver at size=offset=length=2^62; every caller
// passes buffer lengths, so this is recorded as an observation outside the documented domain, not as a finding).
func verifH_C42_range() {
	verifPanicIsViolation()
	size := verifNondetI64("size")
	off := verifNondetI64("offset")
	length := verifNondetI64("length")
	verifAssume(0 <= size)
	verifAssume(size <= 1<<61)
	verifAssume(0 <= length)
	verifAssume(length <= 1<<61)
	verifAssume(-size <= off)
	verifAssume(off <= size)
	br := NewBlobRange(off, length)
	pr := br.positiveRange(size)
	ws, wc := verifRefRange(size, off, length)
	verifAssert(pr.offset == ws, "start-as-documented")
	verifAssert(pr.length == wc, "count-as-documented")
	verifAssert(pr.offset >= 0, "start-nonneg")
	verifAssert(pr.length >= 0, "count-nonneg")
	verifAssert(pr.offset+pr.length <= size, "inside-blob")
	verifAssert(br.isAllRange() == verifAnd(off == 0, length == 0), "all-range")
	verifCover(off < 0, "suffix-range")
	verifCover(verifAnd(length > 0, off+length > size), "clamped")
	verifCover(length == 0, "to-the-end")
	verifReach("end")
}

// H-C42-inmem-get: a ranged Get on the in-memory blobstore returns exactly the requested bytes, the size of the whole
// blob and the stored version, for every blob of <= verifBoundBlob symbolic bytes and every range of the domain.
func verifH_C42_inmem_get() {
	verifPanicIsViolation()
	n := verifNondetInt("blob-len")
	verifAssume(0 <= n)
	verifAssume(n <= verifBoundBlob)
	n = verifConcrete(n, 16)
	data := verifNondetBytes("blob", n)
	bs := NewInMemoryBlobstore("")
	bs.blobs["k"] = data
	bs.versions["k"] = "v1"
	off := verifNondetI64("offset")
	length := verifNondetI64("length")
	verifAssume(0 <= length)
	verifAssume(length <= 1<<62)
	verifAssume(-int64(n) <= off)
	verifAssume(off <= int64(n))
	rc, sz, ver, err := bs.Get(context.Background(), "k", NewBlobRange(off, length))
	verifAssert(err == nil, "get-ok")
	if err != nil {
		return
	}
	verifAssert(sz == uint64(n), "size-of-whole-blob")
	verifAssert(verifStrEq(ver, "v1"), "version")
	got, rerr := io.ReadAll(rc)
	verifAssert(rerr == nil, "read-ok")
	ws, wc := verifRefRange(int64(n), off, length)
	verifAssert(int64(len(got)) == wc, "count")
	for i := 0; i < len(got); i++ {
		verifAssert(got[i] == data[int(ws)+i], "bytes")
	}
	_, _, _, err2 := bs.Get(context.Background(), "absent", NewBlobRange(off, length))
	verifAssert(IsNotFoundError(err2), "absent-key-not-found")
	verifCover(verifAnd(off < 0, wc > 0), "suffix-range")
	verifCover(verifAnd(length > 0, wc < length), "clamped")
	verifReach("end")
}

// H-C42-inmem-cas: one CheckAndPutManifest step from an arbitrary state: it writes iff the stored version equals the
// expected one (absent manifest = ""), otherwise returns CheckAndPutError and changes nothing.
func verifH_C42_inmem_cas() {
	verifPanicIsViolation()
	bs := NewInMemoryBlobstore("")
	present := verifNondetBool("present")
	lv := verifNondetInt("ver-len")
	verifAssume(1 <= lv)
	verifAssume(lv <= verifBoundVer)
	lv = verifConcrete(lv, 4)
	stored := string(verifNondetBytes("stored-version", lv))
	old := verifNondetBytes("old-contents", 1)
	if present {
		bs.blobs[ManifestKey] = old
		bs.versions[ManifestKey] = stored
	}
	le := verifNondetInt("exp-len")
	verifAssume(0 <= le)
	verifAssume(le <= verifBoundVer)
	le = verifConcrete(le, 4)
	expected := string(verifNondetBytes("expected-version", le))
	contents := verifNondetBytes("new-contents", 2)

	ver, err := bs.CheckAndPutManifest(context.Background(), expected, contents)
	should := verifOr(verifAnd(!present, le == 0), verifAnd(present, verifStrEq(expected, stored)))
	verifAssert((err == nil) == should, "writes-iff-version-matches")
	cur, have := bs.blobs[ManifestKey]
	curVer, haveVer := bs.versions[ManifestKey]
	if err == nil {
		verifAssert(have, "written")
		verifAssert(verifBytesEq(cur, contents), "new-contents-stored")
		verifAssert(verifAnd(haveVer, verifStrEq(curVer, ver)), "returned-version-is-stored-version")
		verifAssert(len(ver) > 0, "version-non-empty")
	} else {
		verifAssert(IsCheckAndPutError(err), "mismatch-is-check-and-put-error")
		verifAssert(have == present, "failed-write-changes-nothing:presence")
		if present {
			verifAssert(verifBytesEq(cur, old), "failed-write-changes-nothing:contents")
			verifAssert(verifAnd(haveVer, verifStrEq(curVer, stored)), "failed-write-changes-nothing:version")
		}
	}
	verifCover(verifAnd(present, err == nil), "swap")
	verifCover(verifAnd(!present, err == nil), "create")
	verifCover(verifAnd(present, err != nil), "stale")
	verifReach("end")
}

// H-C42-local-reader: the range reader of the local blobstore (localBlobRangeReadCloser over a file positioned at the
// start of the range) hands out exactly the first `length` bytes of the underlying stream over any two reads with
// arbitrary buffer sizes, and then io.EOF.
func verifH_C42_local_reader() {
	verifPanicIsViolation()
	n := verifNondetInt("stream-len")
	verifAssume(0 <= n)
	verifAssume(n <= verifBoundBlob)
	n = verifConcrete(n, 16)
	data := verifNondetBytes("stream", n)
	l := verifNondetI64("length")
	verifAssume(1 <= l)
	verifAssume(l <= int64(n))
	rd := newByteSliceReadCloser(data)
	rc := &localBlobRangeReadCloser{br: BlobRange{offset: 0, length: l}, rc: rd}
	b1 := verifNondetInt("buf1")
	b2 := verifNondetInt("buf2")
	verifAssume(0 <= b1)
	verifAssume(b1 <= verifBoundBlob+1)
	verifAssume(0 <= b2)
	verifAssume(b2 <= verifBoundBlob+1)
	b1 = verifConcrete(b1, 16)
	b2 = verifConcrete(b2, 16)
	p1 := make([]byte, b1)
	p2 := make([]byte, b2)
	n1, e1 := rc.Read(p1)
	n2, e2 := rc.Read(p2)
	verifAssert(int64(n1+n2) <= l, "never-more-than-length")
	want := int64(b1 + b2)
	if want > l {
		want = l
	}
	verifAssert(int64(n1+n2) == want, "delivers-what-fits")
	for i := 0; i < n1; i++ {
		verifAssert(p1[i] == data[i], "bytes-1")
	}
	for i := 0; i < n2; i++ {
		verifAssert(p2[i] == data[n1+i], "bytes-2")
	}
	if int64(n1) == l {
		verifAssert(verifAnd(n2 == 0, e2 == io.EOF), "eof-after-length")
	}
	verifAssert(verifOr(e1 == nil, verifAnd(n1 == 0, e1 == io.EOF)), "first-read-error-only-eof-empty")
	verifCover(int64(b1) > l, "buffer-larger-than-range")
	verifCover(verifAnd(n1 > 0, n2 > 0), "two-part-read")
	verifReach("end")
}
