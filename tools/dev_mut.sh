#!/bin/bash
# dev helper: run harnesses (engine only, no native replay) against a seeded change in a scratch worktree
# usage: dev_mut.sh <patch.diff> <pkg> <harness-regex> [tier]
patch=$1; pkg=$2; re=$3; tier=${4:-quick}
wt=/tmp/mutrepo/dev
mkdir -p /tmp/mutrepo
if [ ! -d $wt ]; then git -C /repo worktree add -q --detach $wt HEAD || exit 2; fi
git -C $wt checkout -q --detach $(git -C /repo rev-parse HEAD) && git -C $wt checkout -q -- . && git -C $wt clean -fdq go
git -C $wt apply $patch || { echo "PATCH DOES NOT APPLY"; exit 2; }
ov=$(/verif/dev_overlay.sh $pkg $tier)
timeout 1500 /verif/bin/gosmt check -dir $wt/go -pkg ./$pkg -overlay $ov -harness "$re" -solver ${VERIF_SOLVER:-z3} -timeout 60000 -workers 14 -out /tmp/mutrepo/dev_out.json 2>&1 | grep -v "^WARNING" | cut -c1-220 | grep -E "^harness|violation" | sort | uniq -c | sort -rn | head -12
git -C $wt checkout -q -- .
