#!/usr/bin/env python3
"""Keep a confirmed seeded change under /verif/seeded/<id>/: patch.diff, the demonstration, meta.json.
usage: seed_keep.py <id> <property> <srcdir> <demo-file> <demo-place> <demo-run> <needs> <detected-by> [<note>]"""
import json, os, shutil, sys
sid, prop, src, demo, place, run, needs, detected = sys.argv[1:9]
note = sys.argv[9] if len(sys.argv) > 9 else ""
dst = os.path.join("/verif/seeded", sid)
os.makedirs(dst, exist_ok=True)
shutil.copy(os.path.join(src, "patch.diff"), os.path.join(dst, "patch.diff"))
shutil.copy(os.path.join(src, demo), os.path.join(dst, demo))
if os.path.exists(os.path.join(src, "notes.md")):
    shutil.copy(os.path.join(src, "notes.md"), os.path.join(dst, "author_notes.md"))
meta = {
    "id": sid, "breaks_property": prop,
    "origin": "written by a fresh sub-agent that was given only the property text and a scratch worktree",
    "needs_to_manifest": needs,
    "demonstration": {"file": demo, "place_at": place, "run": run,
                      "confirmed": "fails with patch.diff applied, passes on the unchanged tree (tools/mut_verify.sh, scratch worktree)"},
    "existing_tests_with_change": "package tests of the touched package pass with the change (tools/mut_verify.sh)",
    "check_result": detected,
}
if note:
    meta["note"] = note
json.dump(meta, open(os.path.join(dst, "meta.json"), "w"), indent=1)
print("kept", dst)
