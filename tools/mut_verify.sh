#!/bin/bash
# Confirm a seeded change independently: demo passes on the clean scratch worktree, fails with the change, and the
# package's existing tests pass with the change.
# usage: mut_verify.sh <worktree> <patch.diff> <demo_test.go> <pkg rel to go/> <run-regex> [extra test pkgs...]
wt=$1; patch=$2; demo=$3; pkg=$4; run=$5; shift 5
export GOFLAGS=-mod=mod GOPROXY=off
cd $wt || exit 2
git checkout -- . && git clean -fdq go
cp $demo go/$pkg/zz_seeded_demo_test.go
cd go
echo "== demo on clean tree (expect PASS)"
go test -vet=off -count=1 -timeout 30m ./$pkg/ -run "$run" 2>&1 | tail -3
cd ..; git apply $patch || { echo "PATCH DOES NOT APPLY"; exit 2; }
cd go
echo "== demo with change (expect FAIL)"
go test -vet=off -count=1 -timeout 30m ./$pkg/ -run "$run" 2>&1 | tail -6
rm $wt/go/$pkg/zz_seeded_demo_test.go
echo "== existing tests with change (expect ok)"
for p in $pkg "$@"; do go test -vet=off -count=1 -timeout 60m ./$p/ 2>&1 | tail -2; done
cd ..; git checkout -- . && git clean -fdq go
