#!/bin/bash
# Run a registered check against a seeded change WITHOUT touching /repo, out/ or evidence/: the change is applied to a
# scratch worktree of /repo's HEAD and ./check is pointed at it (VERIF_REPO). The final confirmation of a kept change
# is made with tools/mut_check_inplace.sh, which applies it to /repo itself and undoes it.
# usage: mut_check.sh <prop> <patch.diff> [tier] [tag]
prop=$1; patch=$2; tier=${3:-quick}; tag=${4:-$(basename $(dirname $patch))}
V=$(cd "$(dirname "$0")/.." && pwd)   # the /verif this script belongs to (a snapshot under vp run, or /verif itself)
wt=/tmp/mutrepo/${prop}_$$
mkdir -p /tmp/mutrepo
if [ ! -d $wt ]; then git -C /repo worktree add -q --detach $wt HEAD || exit 2; fi
git -C $wt checkout -q --detach $(git -C /repo rev-parse HEAD) && git -C $wt checkout -q -- . && git -C $wt clean -fdq go
git -C $wt apply $patch || { echo "check $prop on $tag: PATCH DOES NOT APPLY"; exit 2; }
out=/tmp/mutrepo/out_${prop}_$$
mkdir -p $out/evidence
mkdir -p $V/out; log=$V/out/mut_${prop}_$tag.log
cd $V; VERIF_SEED=1 VERIF_REPO=$wt VERIF_OUT=$out VERIF_EVIDENCE=$out/evidence ./check $prop --tier $tier > $log 2>&1; rc=$?
git -C /repo worktree remove --force $wt; rm -rf $out
echo "check $prop on $tag: exit=$rc $(tail -1 $log)"; grep -E "^(VIOLATION|INCONCLUSIVE|ENCODER)" $log | cut -c1-200 | head -6
