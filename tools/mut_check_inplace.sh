#!/bin/bash
# As the task describes it: apply the seeded change to /repo, run the registered check, undo. Evidence preserved.
# usage: mut_check_inplace.sh <prop> <patch.diff> [tier]
prop=$1; patch=$2; tier=${3:-quick}
cd /repo || exit 2
if [ -n "$(git status --porcelain --untracked-files=no)" ]; then echo "/repo not clean"; exit 2; fi
git apply $patch || { echo "PATCH DOES NOT APPLY"; exit 2; }
out=/tmp/mutrepo/out_inplace_$prop; mkdir -p $out/evidence
cd /verif; VERIF_SEED=1 VERIF_OUT=$out VERIF_EVIDENCE=$out/evidence ./check $prop --tier $tier > /verif/out/mutinplace_${prop}_$(basename $(dirname $patch)).log 2>&1; rc=$?
git -C /repo checkout -- .
echo "check(in place) $prop on $(basename $(dirname $patch)): exit=$rc"; grep -E "^(VIOLATION|INCONCLUSIVE|ENCODER)" /verif/out/mutinplace_${prop}_$(basename $(dirname $patch)).log | cut -c1-200 | head -6
