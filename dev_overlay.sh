#!/bin/bash
# dev helper: assemble overlay dir for a package: $1 = pkg rel path (store/nbs), $2 = tier
set -e
pkg=$1; tier=${2:-quick}
name=$(grep -m1 -h "^package " /repo/go/$pkg/*.go | head -1 | awk "{print \$2}")
out=/verif/out/overlay/$(echo $pkg | tr / _)_$tier
rm -rf $out; mkdir -p $out
for f in /verif/harness/$pkg/*.go; do
  b=$(basename $f)
  case $b in bounds_*) [ "$b" = "bounds_$tier.go" ] || continue;; esac
  cp $f $out/
done
sed "s/PKGNAME/$name/" /verif/harness/rt/rt.go.tmpl > $out/rt.go
sed "s/PKGNAME/$name/" /verif/harness/rt/rtfs.go.tmpl > $out/rtfs.go
echo $out
