package main

// File-system model (DESIGN 4.1). The real code's os / *os.File calls drive it; every call is appended to the event
// trace. Volatile state is what the running process sees; durable state is what survives a crash:
//   - file content becomes durable at (*os.File).Sync,
//   - a directory entry (create, rename, remove) becomes durable when the directory is synced.
// Faults: when enabled by the harness (verifFSFaults), every operation may instead fail with an I/O error.

import (
	"fmt"
	"go/token"
	"go/types"
	"path"
	"sort"
	"strings"

	"golang.org/x/tools/go/ssa"
)

type FSNode struct {
	id       int
	data     *IntArrCell
	size     *Term
	ddata    *IntArrCell // durable content (as of the last Sync); nil = never synced (empty)
	dsize    *Term
	isDir    bool
	mtimeSec *Term
	dirty    bool // volatile content differs from the durable content (written or truncated since the last Sync)
}

type FSHandle struct {
	node     *FSNode
	name     string
	pos      *Term
	writable bool
	readable bool
	closed   bool
}

type FSState struct {
	files     map[string]*FSNode // volatile namespace
	durable   map[string]*FSNode // durable namespace
	handles   map[*StructCell]*FSHandle
	nextID    int
	tmpN      int
	faults    bool
	mutations int
	// crash states: the durable namespace and contents after each successful Sync (of a file or a directory); between
	// two syncs nothing becomes durable in this model
	syncSnaps       []map[string]fsSnap
	unsyncedRenames int // renames whose source file had content that was not yet durable
}

type fsSnap struct {
	data *IntArrCell
	size *Term
}

func (st *FSState) snapshot() {
	m := map[string]fsSnap{}
	for k, n := range st.durable {
		if n.isDir {
			continue
		}
		d := &IntArrCell{N: -1, EW: 8, Ov: map[uint64]*Term{}}
		if n.ddata != nil {
			d.Base = n.ddata.Base
			for i, v := range n.ddata.Ov {
				d.Ov[i] = v
			}
		}
		m[k] = fsSnap{data: d, size: n.dsize}
	}
	// and, under "data:<name>", the durable CONTENT of every file by its current (volatile) name, whether or not the
	// directory entry itself is durable yet
	for k, n := range st.files {
		if n.isDir {
			continue
		}
		d := &IntArrCell{N: -1, EW: 8, Ov: map[uint64]*Term{}}
		if n.ddata != nil {
			d.Base = n.ddata.Base
			for i, v := range n.ddata.Ov {
				d.Ov[i] = v
			}
		}
		m["data:"+k] = fsSnap{data: d, size: n.dsize}
	}
	st.syncSnaps = append(st.syncSnaps, m)
}

func (p *Path) fsState() *FSState {
	if st, ok := p.userData["fs"].(*FSState); ok {
		return st
	}
	st := &FSState{files: map[string]*FSNode{}, durable: map[string]*FSNode{}, handles: map[*StructCell]*FSHandle{}}
	p.userData["fs"] = st
	return st
}

func (p *Path) fsEvent(op, name string, mutating bool) {
	p.trace = append(p.trace, "fs:"+op+":"+path.Base(name))
	if mutating {
		p.fsState().mutations++
		p.trace = append(p.trace, "fsmut:"+op+":"+path.Base(name))
	}
}

func (st *FSState) newNode(p *Path, isDir bool) *FSNode {
	st.nextID++
	return &FSNode{id: st.nextID, data: newIntArr(-1, 8), size: p.ctx.BV(64, 0), dsize: p.ctx.BV(64, 0), isDir: isDir}
}

// fsFail decides whether the current operation fails (only with fault injection on).
func (p *Path) fsFail(op string) bool {
	st := p.fsState()
	if !st.faults {
		return false
	}
	return p.envBool("fsfail_" + op)
}

func (p *Path) globalValue(pkg, name string) Value {
	sp := p.eng.pkgByPath[pkg]
	if sp == nil {
		p.unsupported("package " + pkg + " not loaded")
	}
	g := sp.Var(name)
	if g == nil {
		p.unsupported("global " + pkg + "." + name + " not found")
	}
	return p.loadCell(p.globalCell(g))
}

// pathError builds *fs.PathError{op, path, syscall.Errno(errno)}.
func (p *Path) pathError(op, name string, errno uint64) Value {
	t := p.errorType("io/fs", "PathError")
	cell := p.newCell(t.(*types.Pointer).Elem()).(*StructCell)
	p.storeCell(cell.F[0], p.stringConst(op))
	p.storeCell(cell.F[1], p.stringConst(name))
	sp := p.eng.pkgByPath["syscall"]
	if sp == nil || sp.Type("Errno") == nil {
		p.unsupported("syscall.Errno not available")
	}
	p.storeCell(cell.F[2], IfaceV{T: sp.Type("Errno").Type(), V: IntV{T: p.ctx.BV(64, errno)}})
	return IfaceV{T: t, V: Ptr{Kind: PCell, Cell: cell}}
}

const (
	errnoENOENT = 2
	errnoEIO    = 5
	errnoEEXIST = 17
	errnoEBADF  = 9
)

func (p *Path) fileType() types.Type {
	sp := p.eng.pkgByPath["os"]
	if sp == nil || sp.Type("File") == nil {
		p.unsupported("os.File not available")
	}
	return sp.Type("File").Type()
}

func (p *Path) newFileValue(h *FSHandle) Value {
	cell := p.newCell(p.fileType()).(*StructCell)
	p.fsState().handles[cell] = h
	return Ptr{Kind: PCell, Cell: cell}
}

func (p *Path) handleOf(v Value, op string, caller *ssa.Function) *FSHandle {
	pt, ok := v.(Ptr)
	if !ok {
		p.unsupported("file method on non-pointer")
	}
	if pt.Kind == PNil {
		p.goPanic("nil *os.File in "+op, siteName(caller)+":nil-deref")
	}
	sc, _ := pt.Cell.(*StructCell)
	h := p.fsState().handles[sc]
	if h == nil {
		p.unsupported("*os.File not created by the file-system model (" + op + ")")
	}
	return h
}

func (p *Path) concStr(v Value, what string) string { return p.strArg(v, what) }

func (p *Path) errNil() Value { return IfaceV{} }

func (p *Path) fsOpen(name string, flag int64, caller *ssa.Function) (Value, Value) {
	st := p.fsState()
	name = path.Clean(name)
	const (
		oWRONLY = 0x1
		oRDWR   = 0x2
		oCREATE = 0x40
		oEXCL   = 0x80
		oTRUNC  = 0x200
		oAPPEND = 0x400
	)
	writable := flag&(oWRONLY|oRDWR) != 0
	mutating := flag&(oCREATE|oTRUNC) != 0
	opname := "open"
	if writable {
		opname = "openrw"
	}
	if p.fsFail(opname) {
		p.fsEvent(opname+"-failed", name, false)
		return Ptr{Kind: PNil}, p.pathError("open", name, errnoEIO)
	}
	node, exists := st.files[name]
	if !exists {
		if flag&oCREATE == 0 {
			p.fsEvent(opname+"-enoent", name, false)
			return Ptr{Kind: PNil}, p.pathError("open", name, errnoENOENT)
		}
		node = st.newNode(p, false)
		st.files[name] = node
		p.fsEvent("create", name, true)
	} else {
		if flag&oCREATE != 0 && flag&oEXCL != 0 {
			return Ptr{Kind: PNil}, p.pathError("open", name, errnoEEXIST)
		}
		if flag&oTRUNC != 0 {
			node.size = p.ctx.BV(64, 0)
			p.fsEvent("truncate", name, true)
		}
	}
	_ = mutating
	p.fsEvent(opname, name, false)
	h := &FSHandle{node: node, name: name, pos: p.ctx.BV(64, 0), writable: writable, readable: flag&oWRONLY == 0}
	return p.newFileValue(h), p.errNil()
}

func (p *Path) fsStatValue(name string, node *FSNode) Value {
	// *os.fileStat{name string, size int64, mode FileMode, modTime time.Time, sys syscall.Stat_t}
	sp := p.eng.pkgByPath["os"]
	t := sp.Type("fileStat")
	if t == nil {
		p.unsupported("os.fileStat not available")
	}
	cell := p.newCell(t.Type()).(*StructCell)
	p.storeCell(cell.F[0], p.stringConst(path.Base(name)))
	p.storeCell(cell.F[1], IntV{T: node.size})
	mode := uint64(0o644)
	if node.isDir {
		mode = 1<<31 | 0o755
	}
	p.storeCell(cell.F[2], IntV{T: p.ctx.BV(32, mode)})
	if node.mtimeSec != nil {
		// time.Time{wall: 0, ext: seconds since year 1, loc: nil(UTC)}
		tc := cell.F[3].(*StructCell)
		p.storeCell(tc.F[1], IntV{T: node.mtimeSec})
	}
	return IfaceV{T: types.NewPointer(t.Type()), V: Ptr{Kind: PCell, Cell: cell}}
}

func addFSIntrinsics(m map[string]intrinsic) {
	m["os.TempDir"] = func(p *Path, fn *ssa.Function, a []Value, pos token.Pos, caller *ssa.Function) []Value {
		return []Value{p.stringConst("/tmp")}
	}
	m["os.Getwd"] = func(p *Path, fn *ssa.Function, a []Value, pos token.Pos, caller *ssa.Function) []Value {
		return []Value{p.stringConst("/"), p.errNil()}
	}
	m["os.Open"] = func(p *Path, fn *ssa.Function, a []Value, pos token.Pos, caller *ssa.Function) []Value {
		f, e := p.fsOpen(p.concStr(a[0], "os.Open name"), 0, caller)
		return []Value{f, e}
	}
	m["os.OpenFile"] = func(p *Path, fn *ssa.Function, a []Value, pos token.Pos, caller *ssa.Function) []Value {
		flag := p.concretize(p.intOf(a[1]).T, 1, "open flags")
		f, e := p.fsOpen(p.concStr(a[0], "os.OpenFile name"), int64(flag), caller)
		return []Value{f, e}
	}
	m["os.Create"] = func(p *Path, fn *ssa.Function, a []Value, pos token.Pos, caller *ssa.Function) []Value {
		f, e := p.fsOpen(p.concStr(a[0], "os.Create name"), 0x2|0x40|0x200, caller)
		return []Value{f, e}
	}
	m["os.CreateTemp"] = func(p *Path, fn *ssa.Function, a []Value, pos token.Pos, caller *ssa.Function) []Value {
		st := p.fsState()
		dir := p.concStr(a[0], "CreateTemp dir")
		pat := p.concStr(a[1], "CreateTemp pattern")
		if p.fsFail("createtemp") {
			return []Value{Ptr{Kind: PNil}, p.pathError("open", dir, errnoEIO)}
		}
		st.tmpN++
		name := path.Join(dir, fmt.Sprintf("%stmp%d", strings.ReplaceAll(pat, "*", ""), st.tmpN))
		f, e := p.fsOpen(name, 0x2|0x40|0x80, caller)
		return []Value{f, e}
	}
	m["os.Stat"] = func(p *Path, fn *ssa.Function, a []Value, pos token.Pos, caller *ssa.Function) []Value {
		st := p.fsState()
		name := path.Clean(p.concStr(a[0], "os.Stat name"))
		if p.fsFail("stat") {
			return []Value{IfaceV{}, p.pathError("stat", name, errnoEIO)}
		}
		p.fsEvent("stat", name, false)
		node, ok := st.files[name]
		if !ok {
			return []Value{IfaceV{}, p.pathError("stat", name, errnoENOENT)}
		}
		return []Value{p.fsStatValue(name, node), p.errNil()}
	}
	m["os.Lstat"] = m["os.Stat"]
	m["os.Remove"] = func(p *Path, fn *ssa.Function, a []Value, pos token.Pos, caller *ssa.Function) []Value {
		st := p.fsState()
		name := path.Clean(p.concStr(a[0], "os.Remove name"))
		if _, ok := st.files[name]; !ok {
			p.fsEvent("remove-enoent", name, false)
			return []Value{p.pathError("remove", name, errnoENOENT)}
		}
		if p.fsFail("remove") {
			return []Value{p.pathError("remove", name, errnoEIO)}
		}
		delete(st.files, name)
		p.fsEvent("remove", name, true)
		return []Value{p.errNil()}
	}
	m["os.Rename"] = func(p *Path, fn *ssa.Function, a []Value, pos token.Pos, caller *ssa.Function) []Value {
		st := p.fsState()
		from := path.Clean(p.concStr(a[0], "os.Rename from"))
		to := path.Clean(p.concStr(a[1], "os.Rename to"))
		node, ok := st.files[from]
		if !ok {
			return []Value{p.pathError("rename", from, errnoENOENT)}
		}
		if p.fsFail("rename") {
			return []Value{p.pathError("rename", from, errnoEIO)}
		}
		delete(st.files, from)
		st.files[to] = node
		if node.dirty {
			st.unsyncedRenames++
		}
		p.fsEvent("rename", from+"->"+path.Base(to), true)
		p.trace = append(p.trace, "fsrename:"+path.Base(from)+":"+path.Base(to))
		return []Value{p.errNil()}
	}
	m["(*os.File).Name"] = func(p *Path, fn *ssa.Function, a []Value, pos token.Pos, caller *ssa.Function) []Value {
		return []Value{p.stringConst(p.handleOf(a[0], "Name", caller).name)}
	}
	m["(*os.File).Close"] = func(p *Path, fn *ssa.Function, a []Value, pos token.Pos, caller *ssa.Function) []Value {
		h := p.handleOf(a[0], "Close", caller)
		p.fsEvent("close", h.name, false)
		if h.closed {
			return []Value{p.pathError("close", h.name, errnoEBADF)}
		}
		h.closed = true
		if p.fsFail("close") {
			return []Value{p.pathError("close", h.name, errnoEIO)}
		}
		return []Value{p.errNil()}
	}
	m["(*os.File).Sync"] = func(p *Path, fn *ssa.Function, a []Value, pos token.Pos, caller *ssa.Function) []Value {
		h := p.handleOf(a[0], "Sync", caller)
		st := p.fsState()
		if p.fsFail("sync") {
			p.fsEvent("sync-failed", h.name, false)
			return []Value{p.pathError("sync", h.name, errnoEIO)}
		}
		if h.node.isDir {
			// directory entries under this directory become durable
			prefix := h.name + "/"
			for k := range st.durable {
				if strings.HasPrefix(k, prefix) && !strings.Contains(k[len(prefix):], "/") {
					delete(st.durable, k)
				}
			}
			for k, n := range st.files {
				if strings.HasPrefix(k, prefix) && !strings.Contains(k[len(prefix):], "/") {
					st.durable[k] = n
				}
			}
			p.fsEvent("syncdir", h.name, true)
			st.snapshot()
			return []Value{p.errNil()}
		}
		h.node.dsize = h.node.size
		h.node.ddata = &IntArrCell{N: -1, EW: 8, Base: h.node.data.Base, Ov: map[uint64]*Term{}}
		for k, v := range h.node.data.Ov {
			h.node.ddata.Ov[k] = v
		}
		h.node.dirty = false
		p.fsEvent("sync", h.name, true)
		st.snapshot()
		return []Value{p.errNil()}
	}
	m["(*os.File).Stat"] = func(p *Path, fn *ssa.Function, a []Value, pos token.Pos, caller *ssa.Function) []Value {
		h := p.handleOf(a[0], "Stat", caller)
		if p.fsFail("fstat") {
			return []Value{IfaceV{}, p.pathError("stat", h.name, errnoEIO)}
		}
		p.fsEvent("fstat", h.name, false)
		return []Value{p.fsStatValue(h.name, h.node), p.errNil()}
	}
	m["(*os.File).Truncate"] = func(p *Path, fn *ssa.Function, a []Value, pos token.Pos, caller *ssa.Function) []Value {
		h := p.handleOf(a[0], "Truncate", caller)
		c := p.ctx
		sz := p.intOf(a[1]).T
		p.fsEvent("truncate", h.name, true)
		if !h.writable {
			return []Value{p.pathError("truncate", h.name, errnoEBADF)}
		}
		if p.fsFail("truncate") {
			return []Value{p.pathError("truncate", h.name, errnoEIO)}
		}
		// shrinking only (growing would need zero fill): the callers truncate to an offset <= size
		if !p.branch(c.SLE(sz, h.node.size)) {
			p.unsupported("Truncate growing a file")
		}
		h.node.size = sz
		h.node.dirty = true
		p.trace = append(p.trace, "fstruncate:"+path.Base(h.name))
		return []Value{p.errNil()}
	}
	m["(*os.File).Seek"] = func(p *Path, fn *ssa.Function, a []Value, pos token.Pos, caller *ssa.Function) []Value {
		h := p.handleOf(a[0], "Seek", caller)
		c := p.ctx
		off := p.intOf(a[1]).T
		whence := p.concretize(p.intOf(a[2]).T, 3, "seek whence")
		if p.fsFail("seek") {
			return []Value{IntV{T: c.BV(64, 0)}, p.pathError("seek", h.name, errnoEIO)}
		}
		switch whence {
		case 0:
			h.pos = off
		case 1:
			h.pos = c.Add(h.pos, off)
		case 2:
			h.pos = c.Add(h.node.size, off)
		}
		p.fsEvent("seek", h.name, false)
		return []Value{IntV{T: h.pos}, p.errNil()}
	}
	readAt := func(p *Path, h *FSHandle, dst SliceV, off *Term, advance bool) []Value {
		c := p.ctx
		if p.fsFail("read") {
			return []Value{IntV{T: c.BV(64, 0)}, p.pathError("read", h.name, errnoEIO)}
		}
		p.fsEvent("read", h.name, false)
		if !off.IsConst() {
			// a symbolic file offset (e.g. one decoded from file content): fork into "at or past the end" and every
			// concrete offset inside the file, so that the copy below reads concrete positions
			if p.branch(c.And(c.SLE(c.BV(64, 0), off), c.SLT(off, h.node.size))) {
				off = c.BV(64, p.concretize(off, 1<<16, "file read offset"))
			}
		}
		// n = min(len(dst), max(size-off, 0))
		avail := c.Ite(c.SLT(off, h.node.size), c.Sub(h.node.size, off), c.BV(64, 0))
		nT := c.Ite(c.ULT(dst.Len, avail), dst.Len, avail)
		n := p.concLen(nT, "file read length")
		for i := 0; i < n; i++ {
			ix := c.BV(64, uint64(i))
			dst.Arr.write(c, c.Add(dst.Off, ix), h.node.data.read(c, c.Add(off, ix)))
		}
		if advance {
			h.pos = c.Add(h.pos, c.BV(64, uint64(n)))
		}
		short := c.ULT(c.BV(64, uint64(n)), dst.Len)
		if advance {
			// Read: io.EOF only when nothing could be read and something was asked for
			if n == 0 && p.branch(c.Not(c.Eq(dst.Len, c.BV(64, 0)))) {
				return []Value{IntV{T: c.BV(64, 0)}, p.globalValue("io", "EOF")}
			}
			return []Value{IntV{T: c.BV(64, uint64(n))}, p.errNil()}
		}
		if p.branch(short) {
			return []Value{IntV{T: c.BV(64, uint64(n))}, p.globalValue("io", "EOF")}
		}
		return []Value{IntV{T: c.BV(64, uint64(n))}, p.errNil()}
	}
	m["(*os.File).ReadAt"] = func(p *Path, fn *ssa.Function, a []Value, pos token.Pos, caller *ssa.Function) []Value {
		h := p.handleOf(a[0], "ReadAt", caller)
		return readAt(p, h, a[1].(SliceV), p.intOf(a[2]).T, false)
	}
	m["(*os.File).Read"] = func(p *Path, fn *ssa.Function, a []Value, pos token.Pos, caller *ssa.Function) []Value {
		h := p.handleOf(a[0], "Read", caller)
		return readAt(p, h, a[1].(SliceV), h.pos, true)
	}
	writeAt := func(p *Path, h *FSHandle, src seq, off *Term, advance bool) []Value {
		c := p.ctx
		p.fsEvent("write", h.name, true)
		if !h.writable {
			return []Value{IntV{T: c.BV(64, 0)}, p.pathError("write", h.name, errnoEBADF)}
		}
		if p.fsFail("write") {
			return []Value{IntV{T: c.BV(64, 0)}, p.pathError("write", h.name, errnoEIO)}
		}
		n := p.concLen(src.Len, "file write length")
		for i := 0; i < n; i++ {
			ix := c.BV(64, uint64(i))
			h.node.data.write(c, c.Add(off, ix), p.seqAt(src, ix))
		}
		end := c.Add(off, c.BV(64, uint64(n)))
		h.node.size = c.Ite(c.SLT(h.node.size, end), end, h.node.size)
		h.node.dirty = true
		if advance {
			h.pos = end
		}
		p.trace = append(p.trace, fmt.Sprintf("fswrite:%s:%d", path.Base(h.name), n))
		return []Value{IntV{T: c.BV(64, uint64(n))}, p.errNil()}
	}
	m["(*os.File).WriteAt"] = func(p *Path, fn *ssa.Function, a []Value, pos token.Pos, caller *ssa.Function) []Value {
		h := p.handleOf(a[0], "WriteAt", caller)
		return writeAt(p, h, p.seqOf(a[1]), p.intOf(a[2]).T, false)
	}
	m["(*os.File).Write"] = func(p *Path, fn *ssa.Function, a []Value, pos token.Pos, caller *ssa.Function) []Value {
		h := p.handleOf(a[0], "Write", caller)
		return writeAt(p, h, p.seqOf(a[1]), h.pos, true)
	}
	m["(*os.File).WriteString"] = m["(*os.File).Write"]

	// ---- harness API ----
	// verifFSCreate(path string, data []byte): create a file with the given (volatile and durable) content
	m["verif:verifFSCreate"] = func(p *Path, fn *ssa.Function, a []Value, pos token.Pos, caller *ssa.Function) []Value {
		st := p.fsState()
		name := path.Clean(p.concStr(a[0], "verifFSCreate name"))
		node := st.newNode(p, false)
		src := p.seqOf(a[1])
		n := p.concLen(src.Len, "verifFSCreate data length")
		for i := 0; i < n; i++ {
			node.data.Ov[uint64(i)] = p.seqAt(src, p.ctx.BV(64, uint64(i)))
		}
		node.size = p.ctx.BV(64, uint64(n))
		node.dsize = node.size
		node.ddata = &IntArrCell{N: -1, EW: 8, Ov: map[uint64]*Term{}}
		for k, v := range node.data.Ov {
			node.ddata.Ov[k] = v
		}
		st.files[name] = node
		st.durable[name] = node
		// make sure the directory exists
		dir := path.Dir(name)
		if _, ok := st.files[dir]; !ok {
			st.files[dir] = st.newNode(p, true)
			st.durable[dir] = st.files[dir]
		}
		return nil
	}
	m["verif:verifFSRoot"] = func(p *Path, fn *ssa.Function, a []Value, pos token.Pos, caller *ssa.Function) []Value {
		return []Value{p.stringConst("/vfs")}
	}
	// verifFSRemove(path): harness-side removal (volatile and durable), not counted as a mutation of the code under test
	m["verif:verifFSRemove"] = func(p *Path, fn *ssa.Function, a []Value, pos token.Pos, caller *ssa.Function) []Value {
		st := p.fsState()
		name := path.Clean(p.concStr(a[0], "verifFSRemove name"))
		delete(st.files, name)
		delete(st.durable, name)
		return nil
	}
	m["verif:verifFSMkdir"] = func(p *Path, fn *ssa.Function, a []Value, pos token.Pos, caller *ssa.Function) []Value {
		st := p.fsState()
		name := path.Clean(p.concStr(a[0], "verifFSMkdir name"))
		if _, ok := st.files[name]; !ok {
			st.files[name] = st.newNode(p, true)
			st.durable[name] = st.files[name]
		}
		return nil
	}
	m["verif:verifFSFaults"] = func(p *Path, fn *ssa.Function, a []Value, pos token.Pos, caller *ssa.Function) []Value {
		p.fsState().faults = boolArg(a[0]).IsTrue()
		return nil
	}
	// verifFSRead(path) ([]byte, bool): volatile content
	m["verif:verifFSRead"] = func(p *Path, fn *ssa.Function, a []Value, pos token.Pos, caller *ssa.Function) []Value {
		st := p.fsState()
		c := p.ctx
		name := path.Clean(p.concStr(a[0], "verifFSRead name"))
		node, ok := st.files[name]
		if !ok {
			return []Value{SliceV{Off: c.BV(64, 0), Len: c.BV(64, 0), Cap: c.BV(64, 0)}, BoolV{c.False}}
		}
		n := p.concLen(node.size, "verifFSRead size")
		arr := newIntArr(n, 8)
		for i := 0; i < n; i++ {
			arr.Ov[uint64(i)] = node.data.read(c, c.BV(64, uint64(i)))
		}
		return []Value{SliceV{Arr: arr, Off: c.BV(64, 0), Len: c.BV(64, uint64(n)), Cap: c.BV(64, uint64(n))}, BoolV{c.True}}
	}
	// verifFSDurable(path) ([]byte, bool): what a reader sees after a crash now: the durable binding and content
	durableOf := func(byContent bool) intrinsic {
		return func(p *Path, fn *ssa.Function, a []Value, pos token.Pos, caller *ssa.Function) []Value {
			st := p.fsState()
			c := p.ctx
			name := path.Clean(p.concStr(a[0], "verifFSDurable name"))
			node, ok := st.durable[name]
			if byContent {
				// the durable CONTENT of the file that is (volatile) bound to the name, whether or not its directory
				// entry has been made durable yet
				node, ok = st.files[name]
			}
			if !ok {
				return []Value{SliceV{Off: c.BV(64, 0), Len: c.BV(64, 0), Cap: c.BV(64, 0)}, BoolV{c.False}}
			}
			n := p.concLen(node.dsize, "verifFSDurable size")
			arr := newIntArr(n, 8)
			for i := 0; i < n; i++ {
				if node.ddata == nil {
					arr.Ov[uint64(i)] = c.BV(8, 0)
				} else {
					arr.Ov[uint64(i)] = node.ddata.read(c, c.BV(64, uint64(i)))
				}
			}
			return []Value{SliceV{Arr: arr, Off: c.BV(64, 0), Len: c.BV(64, uint64(n)), Cap: c.BV(64, uint64(n))}, BoolV{c.True}}
		}
	}
	m["verif:verifFSDurable"] = durableOf(false)
	m["verif:verifFSDurableData"] = durableOf(true)
	// verifFSDurableIs(path, other): true when the durable directory entry `path` is bound to the file that is
	// (volatile) named `other`: lets a harness ask "is the durable manifest the old or the new file".
	m["verif:verifFSSameFile"] = func(p *Path, fn *ssa.Function, a []Value, pos token.Pos, caller *ssa.Function) []Value {
		st := p.fsState()
		d := st.durable[path.Clean(p.concStr(a[0], "name"))]
		v := st.files[path.Clean(p.concStr(a[1], "name"))]
		return []Value{BoolV{p.ctx.Bool(d != nil && d == v)}}
	}
	m["verif:verifFSExists"] = func(p *Path, fn *ssa.Function, a []Value, pos token.Pos, caller *ssa.Function) []Value {
		_, ok := p.fsState().files[path.Clean(p.concStr(a[0], "name"))]
		return []Value{BoolV{p.ctx.Bool(ok)}}
	}
	m["verif:verifFSSyncPoints"] = func(p *Path, fn *ssa.Function, a []Value, pos token.Pos, caller *ssa.Function) []Value {
		return []Value{IntV{T: p.ctx.BV(64, uint64(len(p.fsState().syncSnaps)))}}
	}
	m["verif:verifFSUnsyncedRenames"] = func(p *Path, fn *ssa.Function, a []Value, pos token.Pos, caller *ssa.Function) []Value {
		return []Value{IntV{T: p.ctx.BV(64, uint64(p.fsState().unsyncedRenames))}}
	}
	// verifFSDurableAtSync(k, path) ([]byte, bool): what a reopen after a crash right after the k-th sync (1-based;
	// any later operation lost) would find under |path|
	durableAt := func(prefix string) intrinsic {
		return func(p *Path, fn *ssa.Function, a []Value, pos token.Pos, caller *ssa.Function) []Value {
			st := p.fsState()
			c := p.ctx
			k := int(p.concretize(p.intOf(a[0]).T, 4096, "sync point"))
			name := path.Clean(p.concStr(a[1], "verifFSDurableAtSync name"))
			none := []Value{SliceV{Off: c.BV(64, 0), Len: c.BV(64, 0), Cap: c.BV(64, 0)}, BoolV{c.False}}
			if k < 1 || k > len(st.syncSnaps) {
				p.unsupported("verifFSDurableAtSync: no such sync point")
			}
			sn, ok := st.syncSnaps[k-1][prefix+name]
			if !ok {
				return none
			}
			n := p.concLen(sn.size, "durable size at sync point")
			arr := newIntArr(n, 8)
			for i := 0; i < n; i++ {
				arr.Ov[uint64(i)] = sn.data.read(c, c.BV(64, uint64(i)))
			}
			return []Value{SliceV{Arr: arr, Off: c.BV(64, 0), Len: c.BV(64, uint64(n)), Cap: c.BV(64, uint64(n))}, BoolV{c.True}}
		}
	}
	m["verif:verifFSDurableAtSync"] = durableAt("")
	m["verif:verifFSDurableDataAtSync"] = durableAt("data:")
	m["verif:verifFSMutations"] = func(p *Path, fn *ssa.Function, a []Value, pos token.Pos, caller *ssa.Function) []Value {
		return []Value{IntV{T: p.ctx.BV(64, uint64(p.fsState().mutations))}}
	}
	// verifFSList(): sorted list of volatile file names (debugging / assertions on temp files)
	m["verif:verifFSCount"] = func(p *Path, fn *ssa.Function, a []Value, pos token.Pos, caller *ssa.Function) []Value {
		pre := path.Clean(p.concStr(a[0], "dir")) + "/"
		n := 0
		var names []string
		for k, nd := range p.fsState().files {
			if strings.HasPrefix(k, pre) && !nd.isDir {
				names = append(names, k)
				n++
			}
		}
		sort.Strings(names)
		return []Value{IntV{T: p.ctx.BV(64, uint64(n))}}
	}
	// verifOpenFile(path, writable) *os.File: a handle for harnesses that construct writer state directly
	m["verif:verifFSOpen"] = func(p *Path, fn *ssa.Function, a []Value, pos token.Pos, caller *ssa.Function) []Value {
		flag := int64(0)
		if boolArg(a[1]).IsTrue() {
			flag = 2
		}
		st := p.fsState()
		saved := st.faults
		st.faults = false
		f, _ := p.fsOpen(p.concStr(a[0], "verifFSOpen name"), flag, caller)
		st.faults = saved
		return []Value{f}
	}
}
