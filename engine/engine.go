package main

import (
	"encoding/json"
	"flag"
	"fmt"
	"go/token"
	"go/types"
	"os"
	"path/filepath"
	"regexp"
	"runtime/debug"
	"sort"
	"strings"
	"sync"
	"sync/atomic"
	"time"

	"golang.org/x/tools/go/packages"
	"golang.org/x/tools/go/ssa"
	"golang.org/x/tools/go/ssa/ssautil"
)

type intrinsic func(p *Path, fn *ssa.Function, args []Value, pos token.Pos, caller *ssa.Function) []Value

type Engine struct {
	prog         *ssa.Program
	pkgs         []*ssa.Package
	mainPkg      *ssa.Package
	intrinsics   map[string]intrinsic
	intrCache    sync.Map // *ssa.Function -> intrinsic or nil marker
	skipInit     map[string]bool
	reverseMaps  bool
	maxDecisions int
	solverKind   string
	timeoutMs    int
	unwind       int
	workers      int
	buildMu      sync.Mutex
	built        sync.Map
	pkgByPath    map[string]*ssa.Package
	maxPaths     int
	logDir       string
	concreteVec  []uint64
	maxWitness   int
	pinMode      bool
	noModelReuse bool
	noBatch      bool
	frozen       frozenHeap
	verbose      bool
}

type noIntr struct{}

var logw = os.Stderr

func (e *Engine) intrinsicFor(fn *ssa.Function) intrinsic {
	if v, ok := e.intrCache.Load(fn); ok {
		if h, ok := v.(intrinsic); ok {
			return h
		}
		return nil
	}
	name := fn.String()
	var h intrinsic
	if hh, ok := e.intrinsics[name]; ok {
		h = hh
	} else if o := fn.Origin(); o != nil {
		if hh, ok := e.intrinsics[o.String()]; ok {
			h = hh
		}
	}
	if h == nil && strings.Contains(name, "store/prolly.GenericMutableMap[") {
		// abstract dictionary behind *prolly.MutableMap (a generic instantiation: matched by method name)
		if hh, ok := e.intrinsics["prolly.MutableMap:"+fn.Name()]; ok {
			h = hh
		}
	}
	if h == nil && strings.HasPrefix(name, "(*github.com/sirupsen/logrus.Entry).") {
		// logging: With* return the receiver, everything else is a no-op (formatting is never the subject)
		if strings.HasPrefix(fn.Name(), "With") {
			h = func(p *Path, fn *ssa.Function, a []Value, pos token.Pos, caller *ssa.Function) []Value { return []Value{a[0]} }
		} else if fn.Signature.Results().Len() == 0 {
			h = func(p *Path, fn *ssa.Function, a []Value, pos token.Pos, caller *ssa.Function) []Value { return nil }
		}
	}
	if h == nil && strings.HasPrefix(fn.Name(), "verif") && fn.Pkg != nil {
		if hh, ok := e.intrinsics["verif:"+fn.Name()]; ok {
			h = hh
		}
	}
	if h == nil {
		e.intrCache.Store(fn, noIntr{})
		return nil
	}
	e.intrCache.Store(fn, h)
	return h
}

func (e *Engine) ensureBuilt(fn *ssa.Function) {
	pkg := fn.Pkg
	for f := fn; pkg == nil && f != nil; {
		if o := f.Origin(); o != nil && o.Pkg != nil {
			pkg = o.Pkg
			break
		}
		f = f.Parent()
		if f != nil {
			pkg = f.Pkg
		}
	}
	if pkg == nil {
		return
	}
	if _, ok := e.built.Load(pkg); ok {
		return
	}
	e.buildMu.Lock()
	defer e.buildMu.Unlock()
	if _, ok := e.built.Load(pkg); ok {
		return
	}
	pkg.Build()
	e.built.Store(pkg, true)
}

func (e *Engine) lookupMethod(t types.Type, m *types.Func) *ssa.Function {
	ms := e.prog.MethodSets.MethodSet(t)
	sel := ms.Lookup(m.Pkg(), m.Name())
	if sel == nil {
		return nil
	}
	e.buildMu.Lock()
	fn := e.prog.MethodValue(sel)
	e.buildMu.Unlock()
	return fn
}

func (e *Engine) funcByName(pkgPath, name string) *ssa.Function {
	pkg := e.pkgByPath[pkgPath]
	if pkg == nil {
		return nil
	}
	return pkg.Func(name)
}

func (e *Engine) methodByName(pkgPath, typeName, method string, ptr bool) *ssa.Function {
	pkg := e.pkgByPath[pkgPath]
	if pkg == nil {
		return nil
	}
	tn := pkg.Type(typeName)
	if tn == nil {
		return nil
	}
	var t types.Type = tn.Type()
	if ptr {
		t = types.NewPointer(t)
	}
	ms := e.prog.MethodSets.MethodSet(t)
	for i := 0; i < ms.Len(); i++ {
		if ms.At(i).Obj().Name() == method {
			e.buildMu.Lock()
			fn := e.prog.MethodValue(ms.At(i))
			e.buildMu.Unlock()
			return fn
		}
	}
	return nil
}

type workItem struct {
	prefix []Decision
}

type Report struct {
	Package     string                   `json:"package"`
	Solver      string                   `json:"solver"`
	TimeoutMs   int                      `json:"timeout_ms"`
	Unwind      int                      `json:"unwind"`
	LoadS       float64                  `json:"load_s"`
	WallS       float64                  `json:"wall_s"`
	Harnesses   []map[string]interface{} `json:"harnesses"`
	SolverStats map[string]int64         `json:"solver_stats"`
}

func main() {
	if len(os.Args) < 2 {
		fmt.Fprintln(os.Stderr, "usage: gosmt check|version ...")
		os.Exit(2)
	}
	switch os.Args[1] {
	case "check":
		os.Exit(cmdCheck(os.Args[2:]))
	case "version":
		fmt.Println("gosmt 1")
	default:
		fmt.Fprintln(os.Stderr, "unknown command")
		os.Exit(2)
	}
}

func cmdCheck(argv []string) int {
	fs := flag.NewFlagSet("check", flag.ExitOnError)
	dir := fs.String("dir", "/repo/go", "module directory")
	pkgPat := fs.String("pkg", "", "package pattern relative to dir, e.g. ./store/nbs")
	overlayDir := fs.String("overlay", "", "directory with harness .go files to inject into the package")
	harnessRe := fs.String("harness", "^verifH_", "regexp selecting harness functions")
	solver := fs.String("solver", "z3", "z3|z3new|cvc5|cvc5int")
	timeout := fs.Int("timeout", 60000, "per query timeout ms")
	unwind := fs.Int("unwind", 40, "default unwinding bound per loop head per frame")
	workers := fs.Int("workers", 8, "parallel workers")
	out := fs.String("out", "", "result json path")
	maxPaths := fs.Int("maxpaths", 200000, "path budget per harness")
	maxDec := fs.Int("maxdecisions", 4000, "decision depth limit per path")
	logDir := fs.String("logdir", "", "write solver transcripts here")
	reverse := fs.Bool("reversemaps", false, "iterate maps in reverse insertion order")
	concrete := fs.String("concrete", "", "json file with a nondet vector: run the harness with inputs pinned (translator validation)")
	pin := fs.Bool("pin", false, "with -concrete: pin via equalities on symbolic variables (exercises the SMT encoding) instead of constants")
	verbose := fs.Bool("v", false, "verbose")
	maxWitness := fs.Int("witnesses", 8, "number of path witnesses (model of a completed path) to emit per harness")
	noReuse := fs.Bool("nomodelreuse", false, "disable deciding feasibility from the last model")
	noBatch := fs.Bool("nobatch", false, "decide every obligation with its own query")
	slow := fs.Int64("slowlog", 0, "log queries slower than this many ms")
	fs.Parse(argv)
	slowLogMs = *slow
	defer func() {}()

	if forkProfile { // periodic fork profile
		go func() {
			for {
				time.Sleep(60 * time.Second)
				forkMu.Lock()
				dumpForkProfile()
				forkMu.Unlock()
				fmt.Fprintln(os.Stderr, "----")
			}
		}()
	}
	debug.SetGCPercent(200)
	t0 := time.Now()
	eng := &Engine{solverKind: *solver, timeoutMs: *timeout, unwind: *unwind, workers: *workers, maxPaths: *maxPaths,
		maxDecisions: *maxDec, logDir: *logDir, reverseMaps: *reverse, verbose: *verbose,
		skipInit: map[string]bool{}, pkgByPath: map[string]*ssa.Package{}, maxWitness: *maxWitness}
	eng.noModelReuse = *noReuse
	eng.noBatch = *noBatch
	eng.intrinsics = buildIntrinsics()

	overlay := map[string][]byte{}
	absDir, _ := filepath.Abs(*dir)
	pkgDir := filepath.Join(absDir, *pkgPat)
	if *overlayDir != "" {
		ents, err := os.ReadDir(*overlayDir)
		if err != nil {
			fmt.Fprintln(os.Stderr, "overlay dir:", err)
			return 2
		}
		for _, e := range ents {
			if !strings.HasSuffix(e.Name(), ".go") {
				continue
			}
			b, err := os.ReadFile(filepath.Join(*overlayDir, e.Name()))
			if err != nil {
				return 2
			}
			name := strings.TrimSuffix(e.Name(), "_test.go")
			name = strings.TrimSuffix(name, ".go")
			overlay[filepath.Join(pkgDir, "zz_verif_"+name+".go")] = b
		}
	}
	cfg := &packages.Config{
		Mode:    packages.LoadAllSyntax,
		Dir:     absDir,
		Overlay: overlay,
		Env:     append(os.Environ(), "GOFLAGS=-mod=mod", "GOPROXY=off"),
	}
	initial, err := packages.Load(cfg, *pkgPat)
	if err != nil {
		fmt.Fprintln(os.Stderr, "load:", err)
		return 2
	}
	nerr := 0
	packages.Visit(initial, nil, func(p *packages.Package) {
		for _, e := range p.Errors {
			if nerr < 20 {
				fmt.Fprintln(os.Stderr, "load error:", e)
			}
			nerr++
		}
	})
	if nerr > 0 {
		fmt.Println("INCONCLUSIVE load errors:", nerr)
		return 2
	}
	prog, pkgs := ssautil.AllPackages(initial, ssa.InstantiateGenerics)
	eng.prog = prog
	eng.pkgs = pkgs
	for _, p := range prog.AllPackages() {
		eng.pkgByPath[p.Pkg.Path()] = p
	}
	eng.mainPkg = pkgs[0]
	eng.mainPkg.Build()
	eng.built.Store(eng.mainPkg, true)
	loadS := time.Since(t0).Seconds()

	re := regexp.MustCompile(*harnessRe)
	var harnesses []*ssa.Function
	for name, m := range eng.mainPkg.Members {
		if fn, ok := m.(*ssa.Function); ok && strings.HasPrefix(name, "verifH_") && re.MatchString(name) {
			harnesses = append(harnesses, fn)
		}
	}
	sort.Slice(harnesses, func(i, j int) bool { return harnesses[i].Name() < harnesses[j].Name() })
	if len(harnesses) == 0 {
		fmt.Println("INCONCLUSIVE no harness matched", *harnessRe)
		return 2
	}
	if *concrete != "" {
		b, err := os.ReadFile(*concrete)
		if err != nil {
			fmt.Fprintln(os.Stderr, err)
			return 2
		}
		var vec struct {
			Vector []NondetRec `json:"vector"`
		}
		if err := json.Unmarshal(b, &vec); err != nil {
			fmt.Fprintln(os.Stderr, err)
			return 2
		}
		eng.concreteVec = []uint64{}
		for _, n := range vec.Vector {
			eng.concreteVec = append(eng.concreteVec, n.Value)
		}
		eng.pinMode = *pin
	}

	rep := Report{Package: *pkgPat, Solver: *solver, TimeoutMs: *timeout, Unwind: *unwind, LoadS: loadS}
	exit := 0
	for _, h := range harnesses {
		hr := eng.runHarness(h)
		m := hr.toJSON()
		rep.Harnesses = append(rep.Harnesses, m)
		dumpForkProfile()
		st := "ok"
		if len(hr.Violations) > 0 {
			st = "VIOLATIONS"
			if exit == 0 {
				exit = 1
			}
		}
		if len(hr.Inconclusive) > 0 {
			st += " INCONCLUSIVE"
			exit = 2
		}
		fmt.Printf("harness %s: %s paths=%d obligations=%d discharged=%d trivial=%d violations=%d inconclusive=%d wall=%.1fs\n",
			h.Name(), st, hr.Paths, hr.Obligations, hr.Discharged, hr.Trivial, totalViolations(hr), len(hr.Inconclusive), m["wall_s"])
		for i, v := range hr.Violations {
			if i < 10 {
				fmt.Printf("  violation %s %s site=%s pos=%s detail=%s\n", v.Kind, v.Label, v.Site, v.Pos, v.Detail)
			}
		}
		for i, s := range hr.Inconclusive {
			if i < 10 {
				fmt.Printf("  inconclusive: %s\n", s)
			}
		}
	}
	rep.WallS = time.Since(t0).Seconds()
	rep.SolverStats = map[string]int64{
		"queries": atomic.LoadInt64(&globalStats.Queries), "sat": globalStats.SatN, "unsat": globalStats.UnsatN,
		"unknown": globalStats.UnknownN, "time_ms": globalStats.TimeNs / 1e6, "restarts": globalStats.Restarts,
		"errors": globalStats.ErrorsN, "max_ms": globalStats.MaxMs,
	}
	if globalStats.ErrorsN > 0 && exit == 0 {
		exit = 2
	}
	if *out != "" {
		b, _ := json.MarshalIndent(rep, "", " ")
		os.WriteFile(*out, b, 0o644)
	}
	return exit
}

func (hr *HarnessResult) toJSON() map[string]interface{} {
	keys := func(m map[string]bool) []string {
		var ks []string
		for k := range m {
			ks = append(ks, k)
		}
		sort.Strings(ks)
		return ks
	}
	var missingCover []string
	for k := range hr.CoverSeen {
		if !hr.CoverHit[k] {
			missingCover = append(missingCover, k)
		}
	}
	sort.Strings(missingCover)
	return map[string]interface{}{
		"name": hr.Name, "paths": hr.Paths, "end_reasons": hr.EndReasons, "instrs": hr.Instrs,
		"obligations": hr.Obligations, "trivial": hr.Trivial, "discharged": hr.Discharged,
		"violations": hr.Violations, "violation_counts": hr.ViolCount, "inconclusive": hr.Inconclusive,
		"cover_hit": keys(hr.CoverHit), "cover_missing": missingCover, "reach_hit": keys(hr.ReachHit),
		"assert_seen": hr.AssertSeen, "samples": hr.OblSamples, "sites": keys(hr.SiteSet),
		"functions": keys(hr.Funcs), "stubs": keys(hr.Stubs), "observations": hr.Observations,
		"max_decisions": hr.MaxDecisions, "wall_s": hr.wall, "witnesses": hr.Witnesses,
	}
}

// runHarness explores all paths of one harness with a pool of workers.
func (e *Engine) runHarness(h *ssa.Function) *HarnessResult {
	t0 := time.Now()
	hr := newHarnessResult(h.Name())
	var mu sync.Mutex
	cond := sync.NewCond(&mu)
	queue := []workItem{{}}
	active := 0
	stop := false
	var wg sync.WaitGroup
	nw := e.workers
	if e.concreteVec != nil {
		nw = 1
	}
	for w := 0; w < nw; w++ {
		wg.Add(1)
		go func(w int) {
			defer wg.Done()
			logPath := ""
			if e.logDir != "" {
				logPath = filepath.Join(e.logDir, fmt.Sprintf("%s-w%d.smt2", h.Name(), w))
			}
			sol := NewSolver(e.solverKind, e.timeoutMs, logPath)
			defer sol.Close()
			for {
				mu.Lock()
				for len(queue) == 0 && active > 0 && !stop {
					cond.Wait()
				}
				if stop || (len(queue) == 0 && active == 0) {
					mu.Unlock()
					cond.Broadcast()
					return
				}
				it := queue[len(queue)-1]
				queue = queue[:len(queue)-1]
				active++
				mu.Unlock()

				pending := e.runPath(h, hr, sol, it.prefix)

				mu.Lock()
				active--
				queue = append(queue, pendingItems(pending)...)
				hr.mu.Lock()
				if hr.Paths >= e.maxPaths && len(queue) > 0 {
					hr.Inconclusive = append(hr.Inconclusive, fmt.Sprintf("path budget %d exhausted with %d prefixes pending", e.maxPaths, len(queue)))
					stop = true
				}
				if len(hr.ViolCount) >= 50 { // 50 DISTINCT violated sites: the harness or the code is broken wholesale
					stop = true
				}
				hr.mu.Unlock()
				mu.Unlock()
				cond.Broadcast()
			}
		}(w)
	}
	wg.Wait()
	// vacuity: every cover label seen must have been hit on some path
	for k := range hr.CoverSeen {
		if !hr.CoverHit[k] {
			hr.Inconclusive = append(hr.Inconclusive, "cover label never satisfiable: "+k)
		}
	}
	hr.wall = time.Since(t0).Seconds()
	return hr
}

func pendingItems(p [][]Decision) []workItem {
	out := make([]workItem, len(p))
	for i := range p {
		out[i] = workItem{p[i]}
	}
	return out
}

func (e *Engine) runPath(h *ssa.Function, hr *HarnessResult, sol *Solver, prefix []Decision) (pending [][]Decision) {
	ctx := NewCtx()
	p := &Path{eng: e, ctx: ctx, sol: sol, res: hr, harness: h.Name(), prefix: prefix,
		globals: map[*ssa.Global]Cell{}, initDone: map[*ssa.Package]bool{}, strConsts: map[string]*IntArrCell{},
		unwind: e.unwind, userData: map[string]interface{}{}, cloneMemo: map[interface{}]interface{}{}}
	if e.concreteVec != nil {
		p.concreteVec = e.concreteVec
		p.useConcrete = true
	}
	sol.BeginPath(ctx)
	reason := "done"
	func() {
		defer func() {
			if r := recover(); r != nil {
				switch x := r.(type) {
				case pathEnd:
					reason = x.reason
				case inconclusiveEnd:
					reason = "inconclusive"
					// obligations raised BEFORE the point the executor could not get past are still decided: a
					// violation in front of an unsupported construct must not be lost with the path
					func() {
						defer func() { recover() }()
						p.flushObligations()
					}()
					hr.mu.Lock()
					if len(hr.Inconclusive) < 200 {
						hr.Inconclusive = append(hr.Inconclusive, x.why)
					}
					hr.mu.Unlock()
				case tolerantFail:
					reason = "inconclusive"
					hr.mu.Lock()
					hr.Inconclusive = append(hr.Inconclusive, "escaped tolerant failure: "+x.why)
					hr.mu.Unlock()
				default:
					reason = "engine-panic"
					hr.mu.Lock()
					hr.Inconclusive = append(hr.Inconclusive, fmt.Sprintf("engine panic: %v at %s\n%s", r, p.curSite, trimStack(debug.Stack())))
					hr.mu.Unlock()
				}
			}
		}()
		p.execFunction(h, nil, nil)
		p.flushObligations()
	}()
	if reason == "done" && e.concreteVec == nil {
		p.makeWitness()
	}
	hr.mu.Lock()
	hr.Paths++
	hr.EndReasons[reason]++
	hr.Instrs += p.steps
	if len(p.decisions) > hr.MaxDecisions {
		hr.MaxDecisions = len(p.decisions)
	}
	hr.mu.Unlock()
	if e.verbose {
		fmt.Fprintf(os.Stderr, "path done reason=%s decisions=%d steps=%d pending=%d\n", reason, len(p.decisions), p.steps, len(p.pending))
	}
	return p.pending
}

func trimStack(b []byte) string {
	lines := strings.Split(string(b), "\n")
	var out []string
	for _, l := range lines {
		if strings.Contains(l, "verif/engine") || strings.Contains(l, "main.") {
			out = append(out, strings.TrimSpace(l))
		}
		if len(out) > 24 {
			break
		}
	}
	return strings.Join(out, "\n")
}

// makeWitness asks the solver for one concrete input of the finished path and the predicted observation values.
func (p *Path) makeWitness() {
	hr := p.res
	hr.mu.Lock()
	n := len(hr.Witnesses)
	hr.mu.Unlock()
	if n >= p.eng.maxWitness {
		return
	}
	defer func() {
		if r := recover(); r != nil {
			// a failure here must not disturb the exploration result
		}
	}()
	want := p.nondetTerms()
	var probes []*Term
	for _, o := range p.observes {
		if o.term.IsConst() {
			probes = append(probes, nil)
			continue
		}
		pr := p.fresh("obs", o.term.S)
		p.addPC(p.ctx.Eq(pr, o.term))
		probes = append(probes, pr)
		want = append(want, pr)
	}
	res, m := p.sol.Check(p.ctx.True, want)
	if res != Sat {
		return
	}
	w := WitnessRec{Harness: p.harness, Vector: p.modelVector(m), Observations: map[string]string{}, UsesUF: len(p.ctx.ufOrd) > 0 || p.envNondet, Decisions: len(p.decisions)}
	for i, o := range p.observes {
		k := o.label
		for j := 1; ; j++ {
			if _, ok := w.Observations[k]; !ok {
				break
			}
			k = fmt.Sprintf("%s#%d", o.label, j)
		}
		if probes[i] == nil {
			w.Observations[k] = fmt.Sprintf("%d", o.term.Val)
		} else {
			w.Observations[k] = fmt.Sprintf("%d", m[probes[i].Name])
		}
	}
	hr.mu.Lock()
	if len(hr.Witnesses) < p.eng.maxWitness {
		hr.Witnesses = append(hr.Witnesses, w)
	}
	hr.mu.Unlock()
}

func totalViolations(hr *HarnessResult) int {
	n := 0
	for _, c := range hr.ViolCount {
		n += c
	}
	return n
}
