package main

// SMT term language with hash-consing and constant folding.
// Integers are bit-vectors (Go wrap-around semantics), arrays are (Array (_ BitVec 64) (_ BitVec w)).

import (
	"fmt"
	"math"
	"math/bits"
	"sort"
	"strings"
	"sync"
	"sync/atomic"
)

type SortKind uint8

const (
	SBool SortKind = iota
	SBV
	SArr
)

type Sort struct {
	K  SortKind
	W  int // BV width, or element width for arrays
	IW int // index width for arrays
}

func (s Sort) String() string {
	switch s.K {
	case SBool:
		return "Bool"
	case SBV:
		return fmt.Sprintf("(_ BitVec %d)", s.W)
	default:
		return fmt.Sprintf("(Array (_ BitVec %d) (_ BitVec %d))", s.IW, s.W)
	}
}

var BoolSort = Sort{K: SBool}

func BVSort(w int) Sort { return Sort{K: SBV, W: w} }
func ArrSort(ew int) Sort { return Sort{K: SArr, W: ew, IW: 64} }

type Op uint8

const (
	OpConst Op = iota
	OpVar
	OpNot
	OpAnd
	OpOr
	OpEq
	OpIte
	OpAdd
	OpSub
	OpMul
	OpUDiv
	OpURem
	OpSDiv
	OpSRem
	OpBAnd
	OpBOr
	OpBXor
	OpBNot
	OpNeg
	OpShl
	OpLShr
	OpAShr
	OpULT
	OpULE
	OpSLT
	OpSLE
	OpConcat
	OpExtract // X1=hi X2=lo
	OpZExt    // X1=extra bits
	OpSExt
	OpSelect
	OpStore
	OpConstArr
	OpUF     // Name, args
	OpFPLt   // args are BV of width 32/64 interpreted as IEEE
	OpFPLe
	OpFPEq
	OpFPIsNaN
	OpFPToSBV  // X1 = target width ; RTZ
	OpFPToUBV  // X1 = target width ; RTZ
	OpSBVToFP  // X1 = target float width; RNE ; result BV (via fresh var constraint, handled in exec)
	OpFPRel    // generic: Name = smt fp relation over FP-converted args -> Bool
)

var opNames = map[Op]string{
	OpNot: "not", OpAnd: "and", OpOr: "or", OpEq: "=", OpIte: "ite",
	OpAdd: "bvadd", OpSub: "bvsub", OpMul: "bvmul", OpUDiv: "bvudiv", OpURem: "bvurem",
	OpSDiv: "bvsdiv", OpSRem: "bvsrem", OpBAnd: "bvand", OpBOr: "bvor", OpBXor: "bvxor",
	OpBNot: "bvnot", OpNeg: "bvneg", OpShl: "bvshl", OpLShr: "bvlshr", OpAShr: "bvashr",
	OpULT: "bvult", OpULE: "bvule", OpSLT: "bvslt", OpSLE: "bvsle", OpConcat: "concat",
	OpSelect: "select", OpStore: "store",
}

type Term struct {
	ID   int
	Op   Op
	S    Sort
	Args []*Term
	Val  uint64 // constant value (BV <=64 bits, or bool 0/1)
	X1   int
	X2   int
	Name string
}

func (t *Term) IsConst() bool { return t.Op == OpConst }
func (t *Term) IsTrue() bool  { return t.Op == OpConst && t.S.K == SBool && t.Val == 1 }
func (t *Term) IsFalse() bool { return t.Op == OpConst && t.S.K == SBool && t.Val == 0 }

type termKey struct {
	op         Op
	s          Sort
	a0, a1, a2 int
	val        uint64
	x1, x2     int
	name       string
}

// Ctx owns all terms of one path exploration.
type Ctx struct {
	tab    map[termKey]*Term
	nextID int
	vars   []*Term
	ufs    map[string]string // name -> declaration
	ufOrd  []string
	True   *Term
	False  *Term
}

// Constants are interned engine-wide (negative ids), so that values computed once by package initialisers can be
// shared by every path's term context.
type constKey struct {
	s Sort
	v uint64
}

var (
	constTab sync.Map
	constSeq int64 = 1
)

func globalConst(s Sort, v uint64) *Term {
	k := constKey{s, v}
	if t, ok := constTab.Load(k); ok {
		return t.(*Term)
	}
	t := &Term{ID: int(-atomic.AddInt64(&constSeq, 1)), Op: OpConst, S: s, Val: v}
	if old, loaded := constTab.LoadOrStore(k, t); loaded {
		return old.(*Term)
	}
	return t
}

func NewCtx() *Ctx {
	c := &Ctx{tab: map[termKey]*Term{}, ufs: map[string]string{}}
	c.True = globalConst(BoolSort, 1)
	c.False = globalConst(BoolSort, 0)
	return c
}

func (c *Ctx) mk(op Op, s Sort, args []*Term, val uint64, x1, x2 int, name string) *Term {
	if op == OpConst {
		return globalConst(s, val)
	}
	k := termKey{op: op, s: s, val: val, x1: x1, x2: x2, name: name, a0: -1, a1: -1, a2: -1}
	if len(args) > 0 {
		k.a0 = args[0].ID
	}
	if len(args) > 1 {
		k.a1 = args[1].ID
	}
	if len(args) > 2 {
		k.a2 = args[2].ID
	}
	if len(args) > 3 {
		var sb strings.Builder
		sb.WriteString(name)
		for _, a := range args {
			fmt.Fprintf(&sb, ",%d", a.ID)
		}
		k.name = sb.String()
	}
	if t, ok := c.tab[k]; ok {
		return t
	}
	t := &Term{ID: c.nextID, Op: op, S: s, Args: args, Val: val, X1: x1, X2: x2, Name: name}
	c.nextID++
	c.tab[k] = t
	return t
}

func mask(w int) uint64 {
	if w >= 64 {
		return ^uint64(0)
	}
	return (uint64(1) << uint(w)) - 1
}

func sext64(v uint64, w int) int64 {
	if w >= 64 {
		return int64(v)
	}
	sh := uint(64 - w)
	return int64(v<<sh) >> sh
}

func (c *Ctx) BV(w int, v uint64) *Term {
	if w > 64 {
		// build wide constant as concat of zero-extension
		lo := c.BV(64, v)
		return c.ZExt(lo, w-64)
	}
	return c.mk(OpConst, BVSort(w), nil, v&mask(w), 0, 0, "")
}

func (c *Ctx) Bool(b bool) *Term {
	if b {
		return c.True
	}
	return c.False
}

func (c *Ctx) Var(name string, s Sort) *Term {
	k := termKey{op: OpVar, s: s, name: name, a0: -1, a1: -1, a2: -1}
	if t, ok := c.tab[k]; ok {
		return t
	}
	t := c.mk(OpVar, s, nil, 0, 0, 0, name)
	c.vars = append(c.vars, t)
	return t
}

func (c *Ctx) Not(a *Term) *Term {
	if a.IsConst() {
		return c.Bool(a.Val == 0)
	}
	if a.Op == OpNot {
		return a.Args[0]
	}
	return c.mk(OpNot, BoolSort, []*Term{a}, 0, 0, 0, "")
}

func (c *Ctx) And(a, b *Term) *Term {
	if a.IsFalse() || b.IsFalse() {
		return c.False
	}
	if a.IsTrue() {
		return b
	}
	if b.IsTrue() {
		return a
	}
	if a == b {
		return a
	}
	return c.mk(OpAnd, BoolSort, []*Term{a, b}, 0, 0, 0, "")
}

func (c *Ctx) Or(a, b *Term) *Term {
	if a.IsTrue() || b.IsTrue() {
		return c.True
	}
	if a.IsFalse() {
		return b
	}
	if b.IsFalse() {
		return a
	}
	if a == b {
		return a
	}
	return c.mk(OpOr, BoolSort, []*Term{a, b}, 0, 0, 0, "")
}

func (c *Ctx) Implies(a, b *Term) *Term { return c.Or(c.Not(a), b) }

func (c *Ctx) Eq(a, b *Term) *Term {
	if a == b {
		return c.True
	}
	if a.S != b.S {
		panic(fmt.Sprintf("Eq sort mismatch %v %v", a.S, b.S))
	}
	if a.IsConst() && b.IsConst() {
		return c.Bool(a.Val == b.Val)
	}
	if a.S.K == SBool {
		if a.IsConst() {
			if a.Val == 1 {
				return b
			}
			return c.Not(b)
		}
		if b.IsConst() {
			if b.Val == 1 {
				return a
			}
			return c.Not(a)
		}
	}
	if a.ID > b.ID {
		a, b = b, a
	}
	// zext(x)==const with high bits set is false; zext(x)==zext(y) -> x==y
	if a.S.K == SBV {
		if a.Op == OpZExt && b.Op == OpZExt && a.Args[0].S == b.Args[0].S {
			return c.Eq(a.Args[0], b.Args[0])
		}
		if a.Op == OpZExt && b.IsConst() && b.S.W <= 64 {
			iw := a.Args[0].S.W
			if b.Val&^mask(iw) != 0 {
				return c.False
			}
			return c.Eq(a.Args[0], c.BV(iw, b.Val))
		}
		if b.Op == OpZExt && a.IsConst() && a.S.W <= 64 {
			iw := b.Args[0].S.W
			if a.Val&^mask(iw) != 0 {
				return c.False
			}
			return c.Eq(b.Args[0], c.BV(iw, a.Val))
		}
	}
	return c.mk(OpEq, BoolSort, []*Term{a, b}, 0, 0, 0, "")
}

func (c *Ctx) Ite(cond, a, b *Term) *Term {
	if cond.IsConst() {
		if cond.Val == 1 {
			return a
		}
		return b
	}
	if a == b {
		return a
	}
	if a.S != b.S {
		panic(fmt.Sprintf("Ite sort mismatch %v %v", a.S, b.S))
	}
	if a.S.K == SBool {
		if a.IsTrue() && b.IsFalse() {
			return cond
		}
		if a.IsFalse() && b.IsTrue() {
			return c.Not(cond)
		}
	}
	return c.mk(OpIte, a.S, []*Term{cond, a, b}, 0, 0, 0, "")
}

func (c *Ctx) binBV(op Op, a, b *Term) *Term {
	if a.S != b.S || a.S.K != SBV {
		panic(fmt.Sprintf("binBV sort mismatch op=%d %v %v", op, a.S, b.S))
	}
	w := a.S.W
	if a.IsConst() && b.IsConst() && w <= 64 {
		x, y := a.Val, b.Val
		var r uint64
		switch op {
		case OpAdd:
			r = x + y
		case OpSub:
			r = x - y
		case OpMul:
			r = x * y
		case OpUDiv:
			if y == 0 {
				r = mask(w)
			} else {
				r = x / y
			}
		case OpURem:
			if y == 0 {
				r = x
			} else {
				r = x % y
			}
		case OpSDiv:
			sx, sy := sext64(x, w), sext64(y, w)
			if sy == 0 {
				if sx < 0 {
					r = 1
				} else {
					r = mask(w)
				}
			} else if sx == math.MinInt64 && sy == -1 {
				r = uint64(sx)
			} else {
				r = uint64(sx / sy)
			}
		case OpSRem:
			sx, sy := sext64(x, w), sext64(y, w)
			if sy == 0 {
				r = x
			} else if sy == -1 {
				r = 0
			} else {
				r = uint64(sx % sy)
			}
		case OpBAnd:
			r = x & y
		case OpBOr:
			r = x | y
		case OpBXor:
			r = x ^ y
		case OpShl:
			if y >= uint64(w) {
				r = 0
			} else {
				r = x << y
			}
		case OpLShr:
			if y >= uint64(w) {
				r = 0
			} else {
				r = x >> y
			}
		case OpAShr:
			sx := sext64(x, w)
			if y >= uint64(w) {
				if sx < 0 {
					r = mask(w)
				} else {
					r = 0
				}
			} else {
				r = uint64(sx >> y)
			}
		}
		return c.BV(w, r)
	}
	// identities
	switch op {
	case OpAdd:
		if a.IsConst() && a.Val == 0 {
			return b
		}
		if b.IsConst() && b.Val == 0 {
			return a
		}
		// (x + c1) + c2
		if b.IsConst() && a.Op == OpAdd && a.Args[1].IsConst() && w <= 64 {
			return c.binBV(OpAdd, a.Args[0], c.BV(w, a.Args[1].Val+b.Val))
		}
		if a.IsConst() {
			a, b = b, a
		}
	case OpSub:
		if b.IsConst() && b.Val == 0 {
			return a
		}
		if a == b {
			return c.BV(w, 0)
		}
		if b.IsConst() && w <= 64 {
			return c.binBV(OpAdd, a, c.BV(w, -b.Val))
		}
		// (x + y) - x = y
		if a.Op == OpAdd {
			if a.Args[0] == b {
				return a.Args[1]
			}
			if a.Args[1] == b {
				return a.Args[0]
			}
		}
	case OpMul:
		if a.IsConst() {
			a, b = b, a
		}
		if b.IsConst() {
			if b.Val == 0 {
				return b
			}
			if b.Val == 1 {
				return a
			}
		}
	case OpBAnd:
		if a.IsConst() {
			a, b = b, a
		}
		if b.IsConst() {
			if b.Val == 0 {
				return b
			}
			if b.Val == mask(w) && w <= 64 {
				return a
			}
		}
		if a == b {
			return a
		}
	case OpBOr, OpBXor:
		if a.IsConst() {
			a, b = b, a
		}
		if b.IsConst() && b.Val == 0 {
			return a
		}
		if a == b {
			if op == OpBOr {
				return a
			}
			return c.BV(w, 0)
		}
	case OpShl, OpLShr, OpAShr:
		if b.IsConst() && b.Val == 0 {
			return a
		}
		if b.IsConst() && b.Val >= uint64(w) && op != OpAShr {
			return c.BV(w, 0)
		}
		if a.IsConst() && a.Val == 0 {
			return a
		}
		// lshr(zext(x), k) with k >= width(x) == 0
		if op == OpLShr && b.IsConst() && a.Op == OpZExt && b.Val >= uint64(a.Args[0].S.W) {
			return c.BV(w, 0)
		}
	case OpUDiv:
		if b.IsConst() && b.Val == 1 {
			return a
		}
	}
	return c.mk(op, a.S, []*Term{a, b}, 0, 0, 0, "")
}

func (c *Ctx) Add(a, b *Term) *Term  { return c.binBV(OpAdd, a, b) }
func (c *Ctx) Sub(a, b *Term) *Term {
	if a.IsConst() && a.S.W <= 64 && a.Val&maskW(a.S.W) == 0 && !b.IsConst() {
		return c.Neg(b) // 0 - x: the same canonical negation as x * -1
	}
	return c.binBV(OpSub, a, b)
}
func (c *Ctx) Mul(a, b *Term) *Term {
	// x * -1 and -1 * x are written as (bvneg x): one canonical form for "the negation", so that `v *= -1` in the
	// code and `-v` in an oracle are the same term
	if b.IsConst() && b.S.W <= 64 && !a.IsConst() && b.Val&maskW(b.S.W) == maskW(b.S.W) {
		return c.Neg(a)
	}
	if a.IsConst() && a.S.W <= 64 && !b.IsConst() && a.Val&maskW(a.S.W) == maskW(a.S.W) {
		return c.Neg(b)
	}
	return c.binBV(OpMul, a, b)
}

func maskW(w int) uint64 {
	if w >= 64 {
		return ^uint64(0)
	}
	return (uint64(1) << uint(w)) - 1
}
func (c *Ctx) UDiv(a, b *Term) *Term { return c.binBV(OpUDiv, a, b) }
func (c *Ctx) URem(a, b *Term) *Term { return c.binBV(OpURem, a, b) }
func (c *Ctx) SDiv(a, b *Term) *Term { return c.binBV(OpSDiv, a, b) }
func (c *Ctx) SRem(a, b *Term) *Term { return c.binBV(OpSRem, a, b) }
func (c *Ctx) BAnd(a, b *Term) *Term { return c.binBV(OpBAnd, a, b) }
func (c *Ctx) BOr(a, b *Term) *Term  { return c.binBV(OpBOr, a, b) }
func (c *Ctx) BXor(a, b *Term) *Term { return c.binBV(OpBXor, a, b) }
func (c *Ctx) Shl(a, b *Term) *Term  { return c.binBV(OpShl, a, b) }
func (c *Ctx) LShr(a, b *Term) *Term { return c.binBV(OpLShr, a, b) }
func (c *Ctx) AShr(a, b *Term) *Term { return c.binBV(OpAShr, a, b) }

func (c *Ctx) BNot(a *Term) *Term {
	if a.IsConst() && a.S.W <= 64 {
		return c.BV(a.S.W, ^a.Val)
	}
	return c.mk(OpBNot, a.S, []*Term{a}, 0, 0, 0, "")
}

func (c *Ctx) Neg(a *Term) *Term {
	if a.IsConst() && a.S.W <= 64 {
		return c.BV(a.S.W, -a.Val)
	}
	if a.Op == OpNeg {
		return a.Args[0]
	}
	return c.mk(OpNeg, a.S, []*Term{a}, 0, 0, 0, "")
}

func (c *Ctx) cmp(op Op, a, b *Term) *Term {
	if a.S != b.S || a.S.K != SBV {
		panic(fmt.Sprintf("cmp sort mismatch %v %v", a.S, b.S))
	}
	w := a.S.W
	if a.IsConst() && b.IsConst() && w <= 64 {
		switch op {
		case OpULT:
			return c.Bool(a.Val < b.Val)
		case OpULE:
			return c.Bool(a.Val <= b.Val)
		case OpSLT:
			return c.Bool(sext64(a.Val, w) < sext64(b.Val, w))
		case OpSLE:
			return c.Bool(sext64(a.Val, w) <= sext64(b.Val, w))
		}
	}
	if a == b {
		return c.Bool(op == OpULE || op == OpSLE)
	}
	if w <= 64 {
		switch op {
		case OpULT:
			if b.IsConst() && b.Val == 0 {
				return c.False
			}
			if a.IsConst() && a.Val == mask(w) {
				return c.False
			}
		case OpULE:
			if a.IsConst() && a.Val == 0 {
				return c.True
			}
			if b.IsConst() && b.Val == mask(w) {
				return c.True
			}
		}
		// zext(x) < const beyond range
		if a.Op == OpZExt && b.IsConst() {
			iw := a.Args[0].S.W
			if (op == OpULT && b.Val > mask(iw)) || (op == OpULE && b.Val >= mask(iw)) {
				return c.True
			}
			if (op == OpSLT || op == OpSLE) && a.X1 > 0 {
				sb := sext64(b.Val, w)
				if sb < 0 {
					return c.False
				}
				if (op == OpSLT && uint64(sb) > mask(iw)) || (op == OpSLE && uint64(sb) >= mask(iw)) {
					return c.True
				}
			}
		}
		if b.Op == OpZExt && a.IsConst() && b.X1 > 0 {
			// const <= zext(x): true if const <= 0 (signed) for signed forms
			if (op == OpSLE) && sext64(a.Val, w) <= 0 {
				return c.True
			}
			if (op == OpSLT) && sext64(a.Val, w) < 0 {
				return c.True
			}
			if op == OpULE && a.Val == 0 {
				return c.True
			}
		}
	}
	return c.mk(op, BoolSort, []*Term{a, b}, 0, 0, 0, "")
}

func (c *Ctx) ULT(a, b *Term) *Term { return c.cmp(OpULT, a, b) }
func (c *Ctx) ULE(a, b *Term) *Term { return c.cmp(OpULE, a, b) }
func (c *Ctx) SLT(a, b *Term) *Term { return c.cmp(OpSLT, a, b) }
func (c *Ctx) SLE(a, b *Term) *Term { return c.cmp(OpSLE, a, b) }

func (c *Ctx) Concat(hi, lo *Term) *Term {
	w := hi.S.W + lo.S.W
	if hi.IsConst() && lo.IsConst() && w <= 64 {
		return c.BV(w, hi.Val<<uint(lo.S.W)|lo.Val)
	}
	return c.mk(OpConcat, BVSort(w), []*Term{hi, lo}, 0, 0, 0, "")
}

func (c *Ctx) Extract(a *Term, hi, lo int) *Term {
	w := hi - lo + 1
	if lo == 0 && w == a.S.W {
		return a
	}
	if a.IsConst() && a.S.W <= 64 {
		return c.BV(w, a.Val>>uint(lo))
	}
	switch a.Op {
	case OpZExt:
		iw := a.Args[0].S.W
		if hi < iw {
			return c.Extract(a.Args[0], hi, lo)
		}
		if lo >= iw {
			return c.BV(w, 0)
		}
	case OpSExt:
		iw := a.Args[0].S.W
		if hi < iw {
			return c.Extract(a.Args[0], hi, lo)
		}
	case OpConcat:
		lw := a.Args[1].S.W
		if hi < lw {
			return c.Extract(a.Args[1], hi, lo)
		}
		if lo >= lw {
			return c.Extract(a.Args[0], hi-lw, lo-lw)
		}
	case OpExtract:
		return c.Extract(a.Args[0], hi+a.X2, lo+a.X2)
	case OpLShr:
		// extract(lshr(x,k)) with const k and in range -> extract(x)
		if a.Args[1].IsConst() {
			k := int(a.Args[1].Val)
			if hi+k < a.S.W {
				return c.Extract(a.Args[0], hi+k, lo+k)
			}
		}
	case OpBOr, OpBAnd, OpBXor:
		if w <= 8 {
			x := c.Extract(a.Args[0], hi, lo)
			y := c.Extract(a.Args[1], hi, lo)
			return c.binBV(a.Op, x, y)
		}
	case OpShl:
		if a.Args[1].IsConst() {
			k := int(a.Args[1].Val)
			if lo >= k {
				return c.Extract(a.Args[0], hi-k, lo-k)
			}
			if hi < k {
				return c.BV(w, 0)
			}
		}
	}
	return c.mk(OpExtract, BVSort(w), []*Term{a}, 0, hi, lo, "")
}

func (c *Ctx) ZExt(a *Term, n int) *Term {
	if n == 0 {
		return a
	}
	if a.IsConst() && a.S.W+n <= 64 {
		return c.BV(a.S.W+n, a.Val)
	}
	if a.Op == OpZExt {
		return c.ZExt(a.Args[0], n+a.X1)
	}
	return c.mk(OpZExt, BVSort(a.S.W+n), []*Term{a}, 0, n, 0, "")
}

func (c *Ctx) SExt(a *Term, n int) *Term {
	if n == 0 {
		return a
	}
	if a.IsConst() && a.S.W+n <= 64 {
		return c.BV(a.S.W+n, uint64(sext64(a.Val, a.S.W)))
	}
	if a.Op == OpZExt && a.X1 > 0 {
		return c.ZExt(a.Args[0], n+a.X1)
	}
	return c.mk(OpSExt, BVSort(a.S.W+n), []*Term{a}, 0, n, 0, "")
}

// Resize converts a to width w, sign- or zero-extending according to signed.
func (c *Ctx) Resize(a *Term, w int, signed bool) *Term {
	if a.S.W == w {
		return a
	}
	if a.S.W > w {
		return c.Extract(a, w-1, 0)
	}
	if signed {
		return c.SExt(a, w-a.S.W)
	}
	return c.ZExt(a, w-a.S.W)
}

func (c *Ctx) ConstArr(ew int, def *Term) *Term {
	return c.mk(OpConstArr, ArrSort(ew), []*Term{def}, 0, 0, 0, "")
}

func (c *Ctx) Select(a, i *Term) *Term {
	for {
		if a.Op == OpStore {
			si := a.Args[1]
			if si == i {
				return a.Args[2]
			}
			if si.IsConst() && i.IsConst() {
				a = a.Args[0]
				continue
			}
		}
		if a.Op == OpConstArr {
			return a.Args[0]
		}
		break
	}
	return c.mk(OpSelect, BVSort(a.S.W), []*Term{a, i}, 0, 0, 0, "")
}

func (c *Ctx) Store(a, i, v *Term) *Term {
	return c.mk(OpStore, a.S, []*Term{a, i, v}, 0, 0, 0, "")
}

// UF application. decl is computed from arg sorts.
func (c *Ctx) UF(name string, res Sort, args ...*Term) *Term {
	if _, ok := c.ufs[name]; !ok {
		var sb strings.Builder
		fmt.Fprintf(&sb, "(declare-fun %s (", name)
		for i, a := range args {
			if i > 0 {
				sb.WriteByte(' ')
			}
			sb.WriteString(a.S.String())
		}
		fmt.Fprintf(&sb, ") %s)", res.String())
		c.ufs[name] = sb.String()
		c.ufOrd = append(c.ufOrd, name)
	}
	return c.mk(OpUF, res, args, 0, 0, 0, name)
}

// Floating point helpers. Arguments are BV terms holding IEEE bits.
func fpEval(op Op, w int, x, y uint64) bool {
	var a, b float64
	if w == 32 {
		a, b = float64(math.Float32frombits(uint32(x))), float64(math.Float32frombits(uint32(y)))
	} else {
		a, b = math.Float64frombits(x), math.Float64frombits(y)
	}
	switch op {
	case OpFPLt:
		return a < b
	case OpFPLe:
		return a <= b
	case OpFPEq:
		return a == b
	}
	return false
}

func (c *Ctx) FPCmp(op Op, a, b *Term) *Term {
	if a.IsConst() && b.IsConst() {
		return c.Bool(fpEval(op, a.S.W, a.Val, b.Val))
	}
	return c.mk(op, BoolSort, []*Term{a, b}, 0, 0, 0, "")
}

func (c *Ctx) FPIsNaN(a *Term) *Term {
	if a.IsConst() {
		if a.S.W == 32 {
			f := math.Float32frombits(uint32(a.Val))
			return c.Bool(f != f)
		}
		f := math.Float64frombits(a.Val)
		return c.Bool(f != f)
	}
	return c.mk(OpFPIsNaN, BoolSort, []*Term{a}, 0, 0, 0, "")
}

// popcount etc. helpers on constants
func bitsLen(v uint64) int { return bits.Len64(v) }

// ---------- printing ----------

func fpSortArgs(w int) string {
	if w == 32 {
		return "8 24"
	}
	return "11 53"
}

type printer struct {
	sb      *strings.Builder
	defined map[int]bool
}

func constStr(t *Term) string {
	if t.S.K == SBool {
		if t.Val == 1 {
			return "true"
		}
		return "false"
	}
	w := t.S.W
	if w%4 == 0 {
		return fmt.Sprintf("#x%0*x", w/4, t.Val)
	}
	return fmt.Sprintf("#b%0*b", w, t.Val)
}

func (p *printer) ref(t *Term) string {
	switch t.Op {
	case OpConst:
		return constStr(t)
	case OpVar:
		return t.Name
	}
	return fmt.Sprintf("t%d", t.ID)
}

// define emits define-fun lines for t and everything below it that is not yet defined.
func (p *printer) define(t *Term) {
	if t.Op == OpConst || t.Op == OpVar || p.defined[t.ID] {
		return
	}
	// iterative post-order to avoid deep recursion on long store chains
	type fr struct {
		t *Term
		i int
	}
	stack := []fr{{t, 0}}
	for len(stack) > 0 {
		top := &stack[len(stack)-1]
		if top.i < len(top.t.Args) {
			a := top.t.Args[top.i]
			top.i++
			if a.Op != OpConst && a.Op != OpVar && !p.defined[a.ID] {
				stack = append(stack, fr{a, 0})
			}
			continue
		}
		n := top.t
		stack = stack[:len(stack)-1]
		if p.defined[n.ID] {
			continue
		}
		p.defined[n.ID] = true
		fmt.Fprintf(p.sb, "(define-fun t%d () %s %s)\n", n.ID, n.S.String(), p.body(n))
	}
}

func (p *printer) body(n *Term) string {
	var sb strings.Builder
	args := func() {
		for _, a := range n.Args {
			sb.WriteByte(' ')
			sb.WriteString(p.ref(a))
		}
	}
	switch n.Op {
	case OpExtract:
		fmt.Fprintf(&sb, "((_ extract %d %d) %s)", n.X1, n.X2, p.ref(n.Args[0]))
	case OpZExt:
		fmt.Fprintf(&sb, "((_ zero_extend %d) %s)", n.X1, p.ref(n.Args[0]))
	case OpSExt:
		fmt.Fprintf(&sb, "((_ sign_extend %d) %s)", n.X1, p.ref(n.Args[0]))
	case OpConstArr:
		fmt.Fprintf(&sb, "((as const %s) %s)", n.S.String(), p.ref(n.Args[0]))
	case OpUF:
		if len(n.Args) == 0 {
			sb.WriteString(n.Name)
		} else {
			sb.WriteString("(" + n.Name)
			args()
			sb.WriteString(")")
		}
	case OpFPLt, OpFPLe, OpFPEq:
		nm := map[Op]string{OpFPLt: "fp.lt", OpFPLe: "fp.leq", OpFPEq: "fp.eq"}[n.Op]
		fa := fpSortArgs(n.Args[0].S.W)
		fmt.Fprintf(&sb, "(%s ((_ to_fp %s) %s) ((_ to_fp %s) %s))", nm, fa, p.ref(n.Args[0]), fa, p.ref(n.Args[1]))
	case OpFPIsNaN:
		fmt.Fprintf(&sb, "(fp.isNaN ((_ to_fp %s) %s))", fpSortArgs(n.Args[0].S.W), p.ref(n.Args[0]))
	case OpFPToSBV:
		fmt.Fprintf(&sb, "((_ fp.to_sbv %d) RTZ ((_ to_fp %s) %s))", n.X1, fpSortArgs(n.Args[0].S.W), p.ref(n.Args[0]))
	case OpFPToUBV:
		fmt.Fprintf(&sb, "((_ fp.to_ubv %d) RTZ ((_ to_fp %s) %s))", n.X1, fpSortArgs(n.Args[0].S.W), p.ref(n.Args[0]))
	case OpFPRel:
		// Name is a format with %s placeholders for FP-converted args
		conv := make([]interface{}, len(n.Args))
		for i, a := range n.Args {
			if a.S.K == SBV && (n.X1>>uint(i))&1 == 1 {
				conv[i] = fmt.Sprintf("((_ to_fp %s) %s)", fpSortArgs(a.S.W), p.ref(a))
			} else {
				conv[i] = p.ref(a)
			}
		}
		fmt.Fprintf(&sb, n.Name, conv...)
	default:
		nm, ok := opNames[n.Op]
		if !ok {
			panic(fmt.Sprintf("print: unknown op %d", n.Op))
		}
		sb.WriteString("(" + nm)
		args()
		sb.WriteString(")")
	}
	return sb.String()
}

// letForm prints t as a nested let over its DAG cone (ids increase with creation, so id order is topological).
func (p *printer) letForm(t *Term) string {
	if t.Op == OpConst || t.Op == OpVar {
		return p.ref(t)
	}
	seen := map[int]bool{}
	var cone []*Term
	stack := []*Term{t}
	for len(stack) > 0 {
		n := stack[len(stack)-1]
		stack = stack[:len(stack)-1]
		if seen[n.ID] || n.Op == OpConst || n.Op == OpVar {
			continue
		}
		seen[n.ID] = true
		cone = append(cone, n)
		stack = append(stack, n.Args...)
	}
	sort.Slice(cone, func(i, j int) bool { return cone[i].ID < cone[j].ID })
	var sb strings.Builder
	for _, n := range cone {
		fmt.Fprintf(&sb, "(let ((t%d %s)) ", n.ID, p.body(n))
	}
	sb.WriteString(p.ref(t))
	for range cone {
		sb.WriteByte(')')
	}
	return sb.String()
}

// termSize counts DAG nodes under t (for statistics).
func termSize(t *Term, seen map[int]bool) int {
	if seen[t.ID] {
		return 0
	}
	seen[t.ID] = true
	n := 1
	for _, a := range t.Args {
		n += termSize(a, seen)
	}
	return n
}

// collectVars returns variables under the given terms, sorted by name.
func collectVars(ts []*Term) []*Term {
	seen := map[int]bool{}
	var out []*Term
	var stack []*Term
	stack = append(stack, ts...)
	for len(stack) > 0 {
		t := stack[len(stack)-1]
		stack = stack[:len(stack)-1]
		if seen[t.ID] {
			continue
		}
		seen[t.ID] = true
		if t.Op == OpVar {
			out = append(out, t)
		}
		stack = append(stack, t.Args...)
	}
	sort.Slice(out, func(i, j int) bool { return out[i].Name < out[j].Name })
	return out
}

// EvalUnder substitutes model values for variables and re-simplifies; the result is a constant when t depends
// only on scalar variables present in the model (no uninterpreted functions, no array variables).
func (c *Ctx) EvalUnder(t *Term, model map[string]uint64, memo map[int]*Term) *Term {
	if t.Op == OpConst {
		return t
	}
	if r, ok := memo[t.ID]; ok {
		return r
	}
	var r *Term
	switch t.Op {
	case OpVar:
		v, ok := model[t.Name]
		if !ok || t.S.K == SArr || (t.S.K == SBV && t.S.W > 64) {
			r = t
		} else if t.S.K == SBool {
			r = c.Bool(v != 0)
		} else {
			r = c.BV(t.S.W, v)
		}
	default:
		args := make([]*Term, len(t.Args))
		changed := false
		for i, a := range t.Args {
			args[i] = c.EvalUnder(a, model, memo)
			if args[i] != a {
				changed = true
			}
		}
		if !changed {
			r = t
		} else {
			r = c.rebuild(t, args)
		}
	}
	memo[t.ID] = r
	return r
}

func (c *Ctx) rebuild(t *Term, a []*Term) *Term {
	switch t.Op {
	case OpNot:
		return c.Not(a[0])
	case OpAnd:
		return c.And(a[0], a[1])
	case OpOr:
		return c.Or(a[0], a[1])
	case OpEq:
		return c.Eq(a[0], a[1])
	case OpIte:
		return c.Ite(a[0], a[1], a[2])
	case OpAdd, OpSub, OpMul, OpUDiv, OpURem, OpSDiv, OpSRem, OpBAnd, OpBOr, OpBXor, OpShl, OpLShr, OpAShr:
		return c.binBV(t.Op, a[0], a[1])
	case OpBNot:
		return c.BNot(a[0])
	case OpNeg:
		return c.Neg(a[0])
	case OpULT, OpULE, OpSLT, OpSLE:
		return c.cmp(t.Op, a[0], a[1])
	case OpConcat:
		return c.Concat(a[0], a[1])
	case OpExtract:
		return c.Extract(a[0], t.X1, t.X2)
	case OpZExt:
		return c.ZExt(a[0], t.X1)
	case OpSExt:
		return c.SExt(a[0], t.X1)
	case OpSelect:
		return c.Select(a[0], a[1])
	case OpStore:
		return c.Store(a[0], a[1], a[2])
	case OpConstArr:
		return c.ConstArr(t.S.W, a[0])
	case OpFPLt, OpFPLe, OpFPEq:
		return c.FPCmp(t.Op, a[0], a[1])
	case OpFPIsNaN:
		return c.FPIsNaN(a[0])
	}
	return c.mk(t.Op, t.S, a, t.Val, t.X1, t.X2, t.Name)
}
