package main

import (
	"fmt"
	"go/constant"
	"go/token"
	"go/types"
	"math"
	"os"
	"strings"

	"golang.org/x/tools/go/ssa"
)

type deferred struct {
	fv   FuncV
	args []Value
	call *ssa.CallCommon
}

type Frame struct {
	fn      *ssa.Function
	env     map[ssa.Value]Value
	defers  []deferred
	visits  map[*ssa.BasicBlock]int
	results []Value
}

func (p *Path) get(fr *Frame, v ssa.Value) Value {
	switch v := v.(type) {
	case *ssa.Const:
		return p.constValue(v)
	case *ssa.Global:
		return ptrToCell(p.globalCell(v))
	case *ssa.Function:
		return FuncV{Fn: v}
	case *ssa.Builtin:
		return FuncV{Builtin: "builtin:" + v.Name()}
	}
	val, ok := fr.env[v]
	if !ok {
		panic(fmt.Sprintf("no value for %s (%T) in %s", v.Name(), v, fr.fn))
	}
	return val
}

func (p *Path) constValue(c *ssa.Const) Value {
	t := c.Type()
	if c.Value == nil {
		return p.zeroValue(t)
	}
	if w, _, ok := intInfo(t); ok {
		if i64, exact := constant.Int64Val(constant.ToInt(c.Value)); exact {
			return IntV{T: p.ctx.BV(w, uint64(i64))}
		}
		u64, _ := constant.Uint64Val(constant.ToInt(c.Value))
		return IntV{T: p.ctx.BV(w, u64)}
	}
	if isBool(t) {
		return BoolV{p.ctx.Bool(constant.BoolVal(c.Value))}
	}
	if isString(t) {
		return p.stringConst(constant.StringVal(c.Value))
	}
	if w, ok := floatWidth(t); ok {
		f, _ := constant.Float64Val(c.Value)
		if w == 32 {
			return FloatV{p.ctx.BV(32, uint64(math.Float32bits(float32(f))))}
		}
		return FloatV{p.ctx.BV(64, math.Float64bits(f))}
	}
	return PoisonV{"const of type " + t.String()}
}

func (p *Path) stringConst(s string) StringV {
	c := p.ctx
	if len(s) == 0 {
		return StringV{Off: c.BV(64, 0), Len: c.BV(64, 0)}
	}
	arr, ok := p.strConsts[s]
	if !ok {
		arr = newIntArr(len(s), 8)
		for i := 0; i < len(s); i++ {
			arr.Ov[uint64(i)] = c.BV(8, uint64(s[i]))
		}
		arr.RO = true
		p.strConsts[s] = arr
	}
	return StringV{Arr: arr, Off: c.BV(64, 0), Len: c.BV(64, uint64(len(s)))}
}

func (p *Path) globalCell(g *ssa.Global) Cell {
	if c, ok := p.globals[g]; ok {
		return c
	}
	if p.isInitPath {
		return p.globalCellInit(g)
	}
	fc := p.eng.frozenGlobal(g)
	p.eng.frozen.mu.RLock()
	c := p.cloneCell(fc)
	p.eng.frozen.mu.RUnlock()
	p.globals[g] = c
	return c
}

// runInit executes the package initialiser tolerantly: failures poison the value being computed.
func (p *Path) runInit(pkg *ssa.Package) {
	p.initDone[pkg] = true
	// allocate all globals first
	for _, m := range pkg.Members {
		if g, ok := m.(*ssa.Global); ok {
			if _, ok := p.globals[g]; !ok {
				p.globals[g] = p.newCell(g.Type().(*types.Pointer).Elem())
			}
		}
	}
	if p.eng.skipInit[pkg.Pkg.Path()] {
		return
	}
	initFn := pkg.Func("init")
	if initFn == nil {
		return
	}
	p.eng.ensureBuilt(initFn)
	if len(initFn.Blocks) == 0 {
		return
	}
	savedSite := p.curSite
	savedPIV := p.panicIsViolation
	p.panicIsViolation = false
	stepsBefore := p.steps
	defer func() {
		if os.Getenv("GOSMT_INITSTATS") != "" {
			fmt.Fprintf(os.Stderr, "INIT %s steps=%d\n", pkg.Pkg.Path(), p.steps-stepsBefore)
		}
	}()
	p.tolerant++
	func() {
		defer func() {
			if r := recover(); r != nil {
				return
			}
		}()
		p.execFunction(initFn, nil, nil)
	}()
	p.tolerant--
	p.panicIsViolation = savedPIV
	p.curSite = savedSite
}

const maxSteps = 20_000_000

func (p *Path) execFunction(fn *ssa.Function, args []Value, bind []Value) []Value {
	p.eng.ensureBuilt(fn)
	if len(fn.Blocks) == 0 {
		p.unsupported("function without body: " + fn.String())
	}
	p.depth++
	if p.depth > 400 {
		panic(inconclusiveEnd{"call depth exceeded in " + fn.String()})
	}
	p.callStack = append(p.callStack, fn)
	defer func() { p.depth--; p.callStack = p.callStack[:len(p.callStack)-1] }()
	if p.tolerant == 0 {
		p.res.mu.Lock()
		p.res.Funcs[fn.String()] = true
		p.res.mu.Unlock()
	}
	fr := &Frame{fn: fn, env: make(map[ssa.Value]Value, 32), visits: map[*ssa.BasicBlock]int{}}
	if len(args) != len(fn.Params) {
		panic(fmt.Sprintf("arity mismatch calling %s: %d vs %d", fn, len(args), len(fn.Params)))
	}
	for i, prm := range fn.Params {
		fr.env[prm] = args[i]
	}
	for i, fv := range fn.FreeVars {
		fr.env[fv] = bind[i]
	}
	isInit := fn.Name() == "init" && fn.Synthetic != ""
	var prev *ssa.BasicBlock
	block := fn.Blocks[0]
	for {
		var next *ssa.BasicBlock
		// phi nodes of a block are one PARALLEL assignment: all of them read the values flowing in from the
		// predecessor before any of them is written (a sequential evaluation mis-executes loop-carried swaps such as
		// `parent, node = node, child`).
		if _, ok := block.Instrs[0].(*ssa.Phi); ok && prev != nil {
			pi := -1
			for i, pred := range block.Preds {
				if pred == prev {
					pi = i
					break
				}
			}
			var phis []*ssa.Phi
			var vals []Value
			for _, ins := range block.Instrs {
				ph, ok := ins.(*ssa.Phi)
				if !ok {
					break
				}
				if pi >= 0 {
					phis = append(phis, ph)
					vals = append(vals, p.get(fr, ph.Edges[pi]))
				}
			}
			for i, ph := range phis {
				fr.env[ph] = vals[i]
			}
		}
		for _, ins := range block.Instrs {
			p.steps++
			if p.steps > maxSteps {
				panic(inconclusiveEnd{"step limit exceeded in " + fn.String()})
			}
			if pos := ins.Pos(); pos.IsValid() {
				p.curSite = p.posOf(pos)
			}
			switch ins := ins.(type) {
			case *ssa.Phi:
				// assigned above, in parallel with the block's other phi nodes
			case *ssa.Jump:
				next = block.Succs[0]
			case *ssa.If:
				cv := p.get(fr, ins.Cond)
				bt, ok := cv.(BoolV)
				if !ok {
					p.unsupported(fmt.Sprintf("if on %T", cv))
				}
				cond := bt.T
				if !cond.IsConst() {
					fr.visits[block]++
					if fr.visits[block] > p.unwind {
						panic(inconclusiveEnd{fmt.Sprintf("unwinding bound %d exceeded at %s in %s", p.unwind, p.curSite, fn.String())})
					}
				}
				if p.branch(cond) {
					next = block.Succs[0]
				} else {
					next = block.Succs[1]
				}
			case *ssa.Return:
				res := make([]Value, len(ins.Results))
				for i, r := range ins.Results {
					res[i] = p.get(fr, r)
				}
				return res
			case *ssa.Panic:
				v := p.get(fr, ins.X)
				p.goPanic(p.describePanic(v), siteName(fn)+":explicit-panic")
			case *ssa.RunDefers:
				p.runDefers(fr)
			case *ssa.Defer:
				fv, args := p.prepareCall(fr, &ins.Call)
				fr.defers = append(fr.defers, deferred{fv: fv, args: args, call: &ins.Call})
			case *ssa.Go:
				fv, args := p.prepareCall(fr, &ins.Call)
				p.trace = append(p.trace, "go:"+fv.name())
				p.invoke(fv, args, ins.Pos(), fn)
			case *ssa.Call:
				if isInit && p.tolerant > 0 {
					// inside a package initialiser: skip initialisers of other packages, tolerate failures
					if callee := ins.Call.StaticCallee(); callee != nil && callee.Name() == "init" && callee.Synthetic != "" && callee.Pkg != fn.Pkg {
						fr.env[ins] = TupleV{}
						continue
					}
					p.tolerantInstr(fr, ins, func() {
						fv, args := p.prepareCall(fr, &ins.Call)
						fr.env[ins] = p.wrapResults(p.invoke(fv, args, ins.Pos(), fn), ins)
					})
					continue
				}
				fv, args := p.prepareCall(fr, &ins.Call)
				fr.env[ins] = p.wrapResults(p.invoke(fv, args, ins.Pos(), fn), ins)
			default:
				if isInit && p.tolerant > 0 {
					p.tolerantInstr(fr, ins, func() { p.execInstr(fr, ins) })
				} else {
					p.execInstr(fr, ins)
				}
			}
			if next != nil {
				break
			}
		}
		if next == nil {
			panic(fmt.Sprintf("block without terminator in %s", fn))
		}
		prev, block = block, next
	}
}

// tolerantInstr runs f; if it fails with tolerantFail, the instruction's result becomes poison.
func (p *Path) tolerantInstr(fr *Frame, ins ssa.Instruction, f func()) {
	defer func() {
		if r := recover(); r != nil {
			if tf, ok := r.(tolerantFail); ok {
				if v, ok := ins.(ssa.Value); ok {
					fr.env[v] = PoisonV{tf.why}
				}
				return
			}
			if p.tolerant > 0 {
				if v, ok := ins.(ssa.Value); ok {
					fr.env[v] = PoisonV{fmt.Sprintf("failure in init: %v", r)}
				}
				return
			}
			panic(r)
		}
	}()
	f()
}

func (p *Path) wrapResults(res []Value, ins *ssa.Call) Value {
	switch len(res) {
	case 0:
		return TupleV{}
	case 1:
		return res[0]
	}
	return TupleV{res}
}

func (p *Path) describePanic(v Value) string {
	if iv, ok := v.(IfaceV); ok {
		if s, ok := iv.V.(StringV); ok {
			if str, ok := p.concreteString(s); ok {
				return str
			}
		}
		if iv.T != nil {
			return "panic(" + iv.T.String() + ")"
		}
	}
	return "panic"
}

func (p *Path) concreteString(s StringV) (string, bool) {
	if !s.Len.IsConst() || !s.Off.IsConst() {
		return "", false
	}
	n := int(s.Len.Val)
	if n > 4096 {
		return "", false
	}
	b := make([]byte, n)
	for i := 0; i < n; i++ {
		t := s.Arr.read(p.ctx, p.ctx.BV(64, s.Off.Val+uint64(i)))
		if !t.IsConst() {
			return "", false
		}
		b[i] = byte(t.Val)
	}
	return string(b), true
}

func (p *Path) runDefers(fr *Frame) {
	for len(fr.defers) > 0 {
		d := fr.defers[len(fr.defers)-1]
		fr.defers = fr.defers[:len(fr.defers)-1]
		p.invoke(d.fv, d.args, token.NoPos, fr.fn)
	}
}

func (f FuncV) name() string {
	if f.Fn != nil {
		return f.Fn.String()
	}
	return f.Builtin
}

// prepareCall evaluates callee and arguments of a call.
func (p *Path) prepareCall(fr *Frame, c *ssa.CallCommon) (FuncV, []Value) {
	var args []Value
	var fv FuncV
	if c.IsInvoke() {
		recv := p.get(fr, c.Value)
		iv, ok := recv.(IfaceV)
		if !ok {
			p.unsupported(fmt.Sprintf("invoke on %T", recv))
		}
		if iv.T == nil {
			p.goPanic("nil interface method call "+c.Method.Name(), siteName(fr.fn)+":nil-deref")
		}
		m := p.eng.lookupMethod(iv.T, c.Method)
		if m == nil {
			p.unsupported("method " + c.Method.Name() + " not found on " + iv.T.String())
		}
		fv = FuncV{Fn: m}
		args = append(args, iv.V)
	} else {
		v := p.get(fr, c.Value)
		f, ok := v.(FuncV)
		if !ok {
			p.unsupported(fmt.Sprintf("call of %T", v))
		}
		fv = f
	}
	for _, a := range c.Args {
		args = append(args, p.get(fr, a))
	}
	return fv, args
}

// invoke calls fv with args (receiver first for methods).
func (p *Path) invoke(fv FuncV, args []Value, pos token.Pos, caller *ssa.Function) []Value {
	if fv.Fn == nil {
		if fv.Builtin == "" {
			p.goPanic("call of nil func", siteName(caller)+":nil-func")
		}
		return p.callBuiltin(fv, args, pos, caller)
	}
	fn := fv.Fn
	if h := p.eng.intrinsicFor(fn); h != nil {
		if p.tolerant == 0 {
			p.res.mu.Lock()
			p.res.Stubs[fn.String()] = true
			p.res.mu.Unlock()
		}
		return h(p, fn, args, pos, caller)
	}
	return p.execFunction(fn, args, fv.Bind)
}

func (p *Path) execInstr(fr *Frame, ins ssa.Instruction) {
	c := p.ctx
	switch ins := ins.(type) {
	case *ssa.DebugRef:
	case *ssa.Alloc:
		cell := p.newCell(ins.Type().(*types.Pointer).Elem())
		fr.env[ins] = ptrToCell(cell)
	case *ssa.BinOp:
		fr.env[ins] = p.binop(ins.Op, p.get(fr, ins.X), p.get(fr, ins.Y), ins.X.Type(), ins.Y.Type(), ins.Pos(), fr.fn)
	case *ssa.UnOp:
		x := p.get(fr, ins.X)
		switch ins.Op {
		case token.MUL:
			pt, ok := x.(Ptr)
			if !ok {
				p.unsupported(fmt.Sprintf("load through %T", x))
			}
			if pt.Kind == PNil {
				p.goPanic("nil pointer dereference", siteName(fr.fn)+":nil-deref")
			}
			fr.env[ins] = p.load(pt, p.curSite)
		case token.NOT:
			fr.env[ins] = BoolV{c.Not(x.(BoolV).T)}
		case token.SUB:
			if f, ok := x.(FloatV); ok {
				w := f.T.S.W
				fr.env[ins] = FloatV{c.BXor(f.T, c.BV(w, uint64(1)<<uint(w-1)))}
			} else {
				fr.env[ins] = IntV{T: c.Neg(p.intOf(x).T)}
			}
		case token.XOR:
			fr.env[ins] = IntV{T: c.BNot(p.intOf(x).T)}
		case token.ARROW:
			fr.env[ins] = p.chanRecv(x, ins.CommaOk, ins.Type())
		default:
			p.unsupported("unop " + ins.Op.String())
		}
	case *ssa.ChangeType:
		fr.env[ins] = p.get(fr, ins.X)
	case *ssa.ChangeInterface:
		fr.env[ins] = p.get(fr, ins.X)
	case *ssa.MakeInterface:
		fr.env[ins] = IfaceV{T: ins.X.Type(), V: p.get(fr, ins.X)}
	case *ssa.Convert:
		fr.env[ins] = p.convert(p.get(fr, ins.X), ins.X.Type(), ins.Type(), fr.fn, ins.Pos())
	case *ssa.MultiConvert:
		fr.env[ins] = p.convert(p.get(fr, ins.X), ins.X.Type(), ins.Type(), fr.fn, ins.Pos())
	case *ssa.Extract:
		t := p.get(fr, ins.Tuple)
		tv, ok := t.(TupleV)
		if !ok {
			if pv, ok := t.(PoisonV); ok {
				fr.env[ins] = pv
				return
			}
			p.unsupported(fmt.Sprintf("extract from %T", t))
		}
		fr.env[ins] = tv.E[ins.Index]
	case *ssa.Field:
		x := p.get(fr, ins.X)
		sv, ok := x.(StructV)
		if !ok {
			p.unsupported(fmt.Sprintf("field of %T", x))
		}
		fr.env[ins] = sv.F[ins.Field]
	case *ssa.FieldAddr:
		x := p.get(fr, ins.X)
		pt, ok := x.(Ptr)
		if !ok {
			p.unsupported(fmt.Sprintf("fieldaddr of %T", x))
		}
		if pt.Kind == PNil {
			p.goPanic("nil pointer dereference (field "+fmt.Sprint(ins.Field)+")", siteName(fr.fn)+":nil-deref")
		}
		sc, ok := pt.Cell.(*StructCell)
		if !ok {
			p.unsupported(fmt.Sprintf("fieldaddr into %T", pt.Cell))
		}
		fr.env[ins] = ptrToCell(sc.F[ins.Field])
	case *ssa.Index:
		fr.env[ins] = p.indexValue(p.get(fr, ins.X), p.get(fr, ins.Index), ins.X.Type(), ins.Index.Type(), ins.Pos(), fr.fn)
	case *ssa.IndexAddr:
		fr.env[ins] = p.indexAddr(p.get(fr, ins.X), p.get(fr, ins.Index), ins.X.Type(), ins.Index.Type(), ins.Pos(), fr.fn)
	case *ssa.Lookup:
		x := p.get(fr, ins.X)
		if sv, ok := x.(StringV); ok {
			idx := p.idx64(p.get(fr, ins.Index), ins.Index.Type())
			p.implicit(c.ULT(idx, sv.Len), "index-out-of-range", ins.Pos(), fr.fn)
			fr.env[ins] = IntV{T: sv.Arr.readOrZero(c, c.Add(sv.Off, idx))}
			return
		}
		mv, ok := x.(MapV)
		if !ok {
			p.unsupported(fmt.Sprintf("lookup in %T", x))
		}
		mt := ins.X.Type().Underlying().(*types.Map)
		v, found := p.mapLookup(mv, p.get(fr, ins.Index), mt)
		if ins.CommaOk {
			fr.env[ins] = TupleV{[]Value{v, BoolV{found}}}
		} else {
			fr.env[ins] = v
		}
	case *ssa.MakeClosure:
		bind := make([]Value, len(ins.Bindings))
		for i, b := range ins.Bindings {
			bind[i] = p.get(fr, b)
		}
		fr.env[ins] = FuncV{Fn: ins.Fn.(*ssa.Function), Bind: bind}
	case *ssa.MakeMap:
		mt := ins.Type().Underlying().(*types.Map)
		fr.env[ins] = MapV{&MapObj{KeyT: mt.Key(), ValT: mt.Elem()}}
	case *ssa.MakeChan:
		n := p.concretize(p.idx64(p.get(fr, ins.Size), ins.Size.Type()), 8, "chan size")
		fr.env[ins] = ChanV{&ChanObj{Cap: int(n)}}
	case *ssa.MakeSlice:
		fr.env[ins] = p.makeSlice(ins.Type(), p.idx64(p.get(fr, ins.Len), ins.Len.Type()), p.idx64(p.get(fr, ins.Cap), ins.Cap.Type()), ins.Pos(), fr.fn)
	case *ssa.MapUpdate:
		mv, ok := p.get(fr, ins.Map).(MapV)
		if !ok {
			p.unsupported("mapupdate on non-map")
		}
		if mv.M == nil {
			p.goPanic("assignment to entry in nil map", siteName(fr.fn)+":nil-map")
		}
		p.mapUpdate(mv, p.get(fr, ins.Key), p.get(fr, ins.Value))
	case *ssa.Slice:
		fr.env[ins] = p.sliceOp(fr, ins)
	case *ssa.SliceToArrayPointer:
		sv := p.get(fr, ins.X).(SliceV)
		at := ins.Type().(*types.Pointer).Elem().Underlying().(*types.Array)
		n := at.Len()
		p.implicit(c.ULE(c.BV(64, uint64(n)), sv.Len), "slice-to-array-length", ins.Pos(), fr.fn)
		if sv.Arr == nil {
			if sv.AC != nil {
				p.unsupported("slice to array pointer on generic slice")
			}
			if n == 0 {
				fr.env[ins] = Ptr{Kind: PNil}
				return
			}
			p.end("infeasible-nil-slice")
		}
		fr.env[ins] = Ptr{Kind: PView, Arr: sv.Arr, Off: sv.Off, N: int(n)}
	case *ssa.Store:
		addr := p.get(fr, ins.Addr)
		pt, ok := addr.(Ptr)
		if !ok {
			if _, isP := addr.(PoisonV); isP && p.tolerant > 0 {
				return
			}
			p.unsupported(fmt.Sprintf("store through %T", addr))
		}
		if pt.Kind == PNil {
			p.goPanic("nil pointer dereference (store)", siteName(fr.fn)+":nil-deref")
		}
		p.store(pt, p.get(fr, ins.Val), p.curSite)
	case *ssa.TypeAssert:
		fr.env[ins] = p.typeAssert(p.get(fr, ins.X), ins, fr.fn)
	case *ssa.Range:
		x := p.get(fr, ins.X)
		pos := 0
		switch x := x.(type) {
		case MapV:
			var es []MapEntry
			if x.M != nil {
				es = append(es, x.M.E...)
				if p.eng.reverseMaps {
					for i, j := 0, len(es)-1; i < j; i, j = i+1, j-1 {
						es[i], es[j] = es[j], es[i]
					}
				}
			}
			fr.env[ins] = IterV{Entries: es, Pos: &pos}
		case StringV:
			fr.env[ins] = IterV{Str: x, IsStr: true, Pos: &pos}
		default:
			p.unsupported(fmt.Sprintf("range over %T", x))
		}
	case *ssa.Next:
		fr.env[ins] = p.iterNext(p.get(fr, ins.Iter).(IterV), ins)
	case *ssa.Send:
		ch := p.get(fr, ins.Chan).(ChanV)
		if ch.C == nil {
			p.unsupported("send on nil channel")
		}
		ch.C.Q = append(ch.C.Q, p.get(fr, ins.X))
	case *ssa.Select:
		fr.env[ins] = p.selectOp(fr, ins)
	default:
		p.unsupported(fmt.Sprintf("instruction %T", ins))
	}
}

func (p *Path) intOf(v Value) IntV {
	iv, ok := v.(IntV)
	if !ok {
		if pv, ok := v.(PoisonV); ok {
			p.unsupported("use of poison: " + pv.Why)
		}
		p.unsupported(fmt.Sprintf("expected integer, got %T", v))
	}
	return iv
}

// idx64 converts an integer value of type t to a 64-bit term (sign- or zero-extended).
func (p *Path) idx64(v Value, t types.Type) *Term {
	iv := p.intOf(v)
	_, signed, _ := intInfo(t)
	return p.ctx.Resize(iv.T, 64, signed)
}

func (a *IntArrCell) readOrZero(c *Ctx, idx *Term) *Term {
	if a == nil {
		return c.BV(8, 0)
	}
	return a.read(c, idx)
}

func (p *Path) binop(op token.Token, x, y Value, xt, yt types.Type, pos token.Pos, fn *ssa.Function) Value {
	c := p.ctx
	if pv, ok := x.(PoisonV); ok {
		p.unsupported("binop on poison: " + pv.Why)
	}
	if pv, ok := y.(PoisonV); ok {
		p.unsupported("binop on poison: " + pv.Why)
	}
	switch op {
	case token.EQL:
		return BoolV{p.valEq(x, y)}
	case token.NEQ:
		return BoolV{c.Not(p.valEq(x, y))}
	}
	switch xv := x.(type) {
	case IntV:
		w, signed, _ := intInfo(xt)
		a := xv.T
		if op == token.SHL || op == token.SHR {
			yv := p.intOf(y).T
			_, ysigned, _ := intInfo(yt)
			if ysigned {
				p.implicit(c.SLE(c.BV(yv.S.W, 0), yv), "negative-shift", pos, fn)
			}
			var sh *Term
			var big *Term = c.False
			if yv.S.W > w {
				big = c.ULE(c.BV(yv.S.W, uint64(w)), yv)
				sh = c.Extract(yv, w-1, 0)
			} else {
				sh = c.ZExt(yv, w-yv.S.W)
			}
			var r, over *Term
			if op == token.SHL {
				r = c.Shl(a, sh)
				over = c.BV(w, 0)
			} else if signed {
				r = c.AShr(a, sh)
				over = c.AShr(a, c.BV(w, uint64(w-1)))
			} else {
				r = c.LShr(a, sh)
				over = c.BV(w, 0)
			}
			return IntV{T: c.Ite(big, over, r)}
		}
		yi := p.intOf(y)
		b := yi.T
		if a.S != b.S {
			p.unsupported(fmt.Sprintf("binop %s width mismatch %d/%d", op, a.S.W, b.S.W))
		}
		prov := xv.Prov
		if prov == nil {
			prov = yi.Prov
		}
		switch op {
		case token.ADD:
			return IntV{T: c.Add(a, b), Prov: prov}
		case token.SUB:
			if xv.Prov != nil && yi.Prov == xv.Prov {
				prov = nil
			}
			return IntV{T: c.Sub(a, b), Prov: prov}
		case token.MUL:
			return IntV{T: c.Mul(a, b)}
		case token.QUO:
			p.implicit(c.Not(c.Eq(b, c.BV(w, 0))), "divide-by-zero", pos, fn)
			if q, _, ok := p.divByConst(a, b, w, signed); ok {
				return IntV{T: q}
			}
			if signed {
				return IntV{T: c.SDiv(a, b)}
			}
			return IntV{T: c.UDiv(a, b)}
		case token.REM:
			p.implicit(c.Not(c.Eq(b, c.BV(w, 0))), "divide-by-zero", pos, fn)
			if _, r, ok := p.divByConst(a, b, w, signed); ok {
				return IntV{T: r}
			}
			if signed {
				return IntV{T: c.SRem(a, b)}
			}
			return IntV{T: c.URem(a, b)}
		case token.AND:
			return IntV{T: c.BAnd(a, b)}
		case token.OR:
			return IntV{T: c.BOr(a, b)}
		case token.XOR:
			return IntV{T: c.BXor(a, b)}
		case token.AND_NOT:
			return IntV{T: c.BAnd(a, c.BNot(b))}
		case token.LSS:
			if signed {
				return BoolV{c.SLT(a, b)}
			}
			return BoolV{c.ULT(a, b)}
		case token.LEQ:
			if signed {
				return BoolV{c.SLE(a, b)}
			}
			return BoolV{c.ULE(a, b)}
		case token.GTR:
			if signed {
				return BoolV{c.SLT(b, a)}
			}
			return BoolV{c.ULT(b, a)}
		case token.GEQ:
			if signed {
				return BoolV{c.SLE(b, a)}
			}
			return BoolV{c.ULE(b, a)}
		}
	case BoolV:
		yb := y.(BoolV)
		switch op {
		case token.AND, token.LAND:
			return BoolV{c.And(xv.T, yb.T)}
		case token.OR, token.LOR:
			return BoolV{c.Or(xv.T, yb.T)}
		}
	case FloatV:
		yf := y.(FloatV)
		switch op {
		case token.LSS:
			return BoolV{c.FPCmp(OpFPLt, xv.T, yf.T)}
		case token.LEQ:
			return BoolV{c.FPCmp(OpFPLe, xv.T, yf.T)}
		case token.GTR:
			return BoolV{c.FPCmp(OpFPLt, yf.T, xv.T)}
		case token.GEQ:
			return BoolV{c.FPCmp(OpFPLe, yf.T, xv.T)}
		case token.ADD, token.SUB, token.MUL, token.QUO:
			return p.floatArith(op, xv, yf)
		}
	case StringV:
		ys := y.(StringV)
		switch op {
		case token.ADD:
			return p.stringConcat(xv, ys)
		case token.LSS:
			return BoolV{c.SLT(p.stringCompare(xv, ys), c.BV(64, 0))}
		case token.LEQ:
			return BoolV{c.SLE(p.stringCompare(xv, ys), c.BV(64, 0))}
		case token.GTR:
			return BoolV{c.SLT(c.BV(64, 0), p.stringCompare(xv, ys))}
		case token.GEQ:
			return BoolV{c.SLE(c.BV(64, 0), p.stringCompare(xv, ys))}
		}
	}
	p.unsupported(fmt.Sprintf("binop %s on %T", op, x))
	return nil
}

// divByConst replaces a symbolic dividend divided by a CONSTANT (not a power of two) by fresh quotient and remainder
// with their defining constraints a = q*c + r, |r| < |c|, sign(r) = sign(a) or r = 0, q within the range in which q*c
// cannot wrap: Go's truncated division, exactly. Bit-blasted dividers make the solvers time out on 64-bit words; a
// multiplication by a constant is a few shifted additions. The pair (q, r) is unique, so nothing is over- or
// under-constrained; the same dividend/divisor pair reuses its variables.
func (p *Path) divByConst(a, b *Term, w int, signed bool) (q, r *Term, ok bool) {
	c := p.ctx
	if a.IsConst() || !b.IsConst() || w < 16 || p.tolerant > 0 {
		return nil, nil, false
	}
	mask := ^uint64(0)
	if w < 64 {
		mask = (uint64(1) << uint(w)) - 1
	}
	cv := b.Val & mask
	var mag uint64 // |c|
	neg := false
	if signed && cv>>(uint(w)-1) == 1 {
		neg = true
		mag = (^cv + 1) & mask
	} else {
		mag = cv
	}
	if mag < 3 || mag&(mag-1) == 0 {
		return nil, nil, false
	}
	key := fmt.Sprintf("div:%p:%d:%d:%v", a, cv, w, signed)
	if qr, have := p.userData[key].([2]*Term); have {
		return qr[0], qr[1], true
	}
	q = p.fresh("divq", BVSort(w))
	r = p.fresh("divr", BVSort(w))
	p.addPC(c.Eq(a, c.Add(c.Mul(q, b), r)))
	if signed {
		lim := (uint64(1) << uint(w-1)) / mag
		p.addPC(c.SLE(c.BV(w, (^lim+1)&mask), q))
		p.addPC(c.SLE(q, c.BV(w, lim)))
		zero := c.BV(w, 0)
		m := c.BV(w, mag)
		nm := c.BV(w, (^mag+1)&mask)
		nonneg := c.SLE(zero, a)
		p.addPC(c.Implies(nonneg, c.And(c.SLE(zero, r), c.SLT(r, m))))
		p.addPC(c.Implies(c.Not(nonneg), c.And(c.SLT(nm, r), c.SLE(r, zero))))
		_ = neg
	} else {
		lim := mask / mag
		p.addPC(c.ULE(q, c.BV(w, lim)))
		p.addPC(c.ULT(r, c.BV(w, mag)))
	}
	p.userData[key] = [2]*Term{q, r}
	return q, r, true
}

func (p *Path) floatArith(op token.Token, x, y FloatV) Value {
	c := p.ctx
	w := x.T.S.W
	if x.T.IsConst() && y.T.IsConst() {
		if w == 64 {
			a, b := math.Float64frombits(x.T.Val), math.Float64frombits(y.T.Val)
			var r float64
			switch op {
			case token.ADD:
				r = a + b
			case token.SUB:
				r = a - b
			case token.MUL:
				r = a * b
			case token.QUO:
				r = a / b
			}
			return FloatV{c.BV(64, math.Float64bits(r))}
		}
		a, b := math.Float32frombits(uint32(x.T.Val)), math.Float32frombits(uint32(y.T.Val))
		var r float32
		switch op {
		case token.ADD:
			r = a + b
		case token.SUB:
			r = a - b
		case token.MUL:
			r = a * b
		case token.QUO:
			r = a / b
		}
		return FloatV{c.BV(32, uint64(math.Float32bits(r)))}
	}
	nm := map[token.Token]string{token.ADD: "fp.add", token.SUB: "fp.sub", token.MUL: "fp.mul", token.QUO: "fp.div"}[op]
	r := p.fresh("fp", BVSort(w))
	// r is some bit pattern whose FP value equals the IEEE result (NaN payload unconstrained)
	rel := c.mk(OpFPRel, BoolSort, []*Term{r, x.T, y.T}, 0, 7, 0, "(= %s ("+nm+" RNE %s %s))")
	p.addPC(rel)
	return FloatV{r}
}

func (p *Path) convert(x Value, from, to types.Type, fn *ssa.Function, pos token.Pos) Value {
	c := p.ctx
	if pv, ok := x.(PoisonV); ok {
		return pv
	}
	fu, tu := from.Underlying(), to.Underlying()
	// integer -> integer
	if fw, fsigned, ok := intInfo(from); ok {
		if tw, _, ok := intInfo(to); ok {
			iv := p.intOf(x)
			_ = fw
			out := IntV{T: c.Resize(iv.T, tw, fsigned)}
			if tw == 64 {
				out.Prov = iv.Prov
			}
			return out
		}
		if w, ok := floatWidth(to); ok {
			iv := p.intOf(x)
			if iv.T.IsConst() {
				var f float64
				if fsigned {
					f = float64(sext64(iv.T.Val, fw))
				} else {
					f = float64(iv.T.Val)
				}
				if w == 32 {
					return FloatV{c.BV(32, uint64(math.Float32bits(float32(f))))}
				}
				return FloatV{c.BV(64, math.Float64bits(f))}
			}
			r := p.fresh("i2f", BVSort(w))
			form := "(= %s ((_ to_fp " + fpSortArgs(w) + ") RNE %s))"
			if !fsigned {
				form = "(= %s ((_ to_fp_unsigned " + fpSortArgs(w) + ") RNE %s))"
			}
			p.addPC(c.mk(OpFPRel, BoolSort, []*Term{r, iv.T}, 0, 1, 0, form))
			return FloatV{r}
		}
		if isString(to) {
			// string(rune)
			iv := p.intOf(x)
			if iv.T.IsConst() {
				return p.stringConst(string(rune(sext64(iv.T.Val, fw))))
			}
			// symbolic rune: ASCII only, otherwise unsupported
			r64 := c.Resize(iv.T, 64, fsigned)
			p.implicitAssumeASCII(r64)
			arr := newIntArr(1, 8)
			arr.Ov[0] = c.Extract(r64, 7, 0)
			return StringV{Arr: arr, Off: c.BV(64, 0), Len: c.BV(64, 1)}
		}
		if isUnsafePointer(to) {
			iv := p.intOf(x)
			if iv.Prov == nil {
				if iv.T.IsConst() && iv.T.Val == 0 {
					return Ptr{Kind: PNil}
				}
				p.unsupported("uintptr without provenance converted to unsafe.Pointer")
			}
			if iv.Prov.N >= 0 {
				// an unchecked read/write outside the allocation is memory-unsafe rather than a panic
				p.implicit(c.ULT(iv.T, c.BV(64, uint64(iv.Prov.N))), "unsafe-pointer-out-of-allocation", pos, fn)
			}
			return Ptr{Kind: PElem, Arr: iv.Prov, Off: iv.T}
		}
	}
	if fw, ok := floatWidth(from); ok {
		fv := x.(FloatV)
		if tw, tsigned, ok := intInfo(to); ok {
			if fv.T.IsConst() {
				var f float64
				if fw == 32 {
					f = float64(math.Float32frombits(uint32(fv.T.Val)))
				} else {
					f = math.Float64frombits(fv.T.Val)
				}
				if tsigned {
					return IntV{T: c.BV(tw, uint64(int64(f)))}
				}
				return IntV{T: c.BV(tw, uint64(f))}
			}
			op := OpFPToSBV
			if !tsigned {
				op = OpFPToUBV
			}
			return IntV{T: c.mk(op, BVSort(tw), []*Term{fv.T}, 0, tw, 0, "")}
		}
		if tw, ok := floatWidth(to); ok {
			if tw == fw {
				return fv
			}
			if fv.T.IsConst() {
				if tw == 32 {
					return FloatV{c.BV(32, uint64(math.Float32bits(float32(math.Float64frombits(fv.T.Val)))))}
				}
				return FloatV{c.BV(64, math.Float64bits(float64(math.Float32frombits(uint32(fv.T.Val)))))}
			}
			r := p.fresh("f2f", BVSort(tw))
			form := "(= %s ((_ to_fp " + fpSortArgs(tw) + ") RNE %s))"
			p.addPC(c.mk(OpFPRel, BoolSort, []*Term{r, fv.T}, 0, 3, 0, form))
			return FloatV{r}
		}
	}
	// string <-> []byte / []rune
	if isString(from) {
		if sl, ok := tu.(*types.Slice); ok {
			sv := x.(StringV)
			if w, _, ok := intInfo(sl.Elem()); ok && w == 8 {
				return p.bytesFromString(sv)
			}
			if w, _, ok := intInfo(sl.Elem()); ok && w == 32 {
				return p.runesFromString(sv)
			}
		}
		if isString(to) {
			return x
		}
	}
	if sl, ok := fu.(*types.Slice); ok && isString(to) {
		sv := x.(SliceV)
		if w, _, ok := intInfo(sl.Elem()); ok && w == 8 {
			return p.stringFromBytes(sv)
		}
		if w, _, ok := intInfo(sl.Elem()); ok && w == 32 {
			return p.stringFromRunes(sv)
		}
	}
	// pointer <-> unsafe.Pointer
	if _, ok := fu.(*types.Pointer); ok && isUnsafePointer(to) {
		return x
	}
	if isUnsafePointer(from) {
		if pt, ok := tu.(*types.Pointer); ok {
			ptr := x.(Ptr)
			return p.retypePtr(ptr, pt.Elem())
		}
		if _, _, ok := intInfo(to); ok {
			ptr := x.(Ptr)
			switch ptr.Kind {
			case PNil:
				return IntV{T: c.BV(64, 0)}
			case PElem, PView:
				return IntV{T: p.viewOff(ptr), Prov: ptr.Arr}
			}
			p.unsupported("unsafe.Pointer to uintptr of non-array memory")
		}
		if isUnsafePointer(to) {
			return x
		}
	}
	// slice -> array (Go 1.20) or other
	if types.Identical(fu, tu) {
		return x
	}
	p.unsupported(fmt.Sprintf("convert %s -> %s", from, to))
	return nil
}

// retypePtr reinterprets an unsafe pointer as *elem.
func (p *Path) retypePtr(ptr Ptr, elem types.Type) Value {
	if ptr.Kind == PNil {
		return ptr
	}
	if w, ok := intElem(elem); ok {
		switch ptr.Kind {
		case PElem, PView:
			if ptr.Arr.EW == w {
				return Ptr{Kind: PElem, Arr: ptr.Arr, Off: p.viewOff(ptr)}
			}
		case PCell:
			if sc, ok := ptr.Cell.(*ScalarCell); ok {
				if iv, ok := sc.V.(IntV); ok && iv.T.S.W == w {
					return ptr
				}
			}
		}
		p.unsupported("unsafe reinterpretation with different element width")
	}
	if at, ok := elem.Underlying().(*types.Array); ok {
		if w, ok := intElem(at.Elem()); ok && (ptr.Kind == PElem || ptr.Kind == PView) && ptr.Arr.EW == w {
			return Ptr{Kind: PView, Arr: ptr.Arr, Off: p.viewOff(ptr), N: int(at.Len())}
		}
	}
	if ptr.Kind == PCell {
		if sc, ok := ptr.Cell.(*ScalarCell); ok {
			// *[]byte -> *string and back: reinterpret the header (snapshot of the header, same backing bytes)
			if sv, ok := sc.V.(SliceV); ok && isString(elem) && sv.AC == nil {
				return Ptr{Kind: PCell, Cell: &ScalarCell{StringV{Arr: sv.Arr, Off: sv.Off, Len: sv.Len}}}
			}
			if st, ok := sc.V.(StringV); ok {
				if sl, ok := elem.Underlying().(*types.Slice); ok {
					if w, ok := intElem(sl.Elem()); ok && w == 8 {
						return Ptr{Kind: PCell, Cell: &ScalarCell{SliceV{Arr: st.Arr, Off: st.Off, Len: st.Len, Cap: st.Len}}}
					}
				}
			}
		}
		// *T -> unsafe.Pointer -> *T' with identical layout
		return ptr
	}
	p.unsupported("unsafe pointer reinterpretation to " + elem.String())
	return nil
}

func (p *Path) implicitAssumeASCII(r *Term) {
	p.assume(p.ctx.ULT(r, p.ctx.BV(64, 0x80)))
	p.noteAssumption("string(rune) on a symbolic rune restricted to ASCII")
}

func (p *Path) noteAssumption(s string) {
	p.res.mu.Lock()
	p.res.Stubs["assumption: "+s] = true
	p.res.mu.Unlock()
}

func (p *Path) typeAssert(x Value, ins *ssa.TypeAssert, fn *ssa.Function) Value {
	iv, ok := x.(IfaceV)
	if !ok {
		if pv, ok := x.(PoisonV); ok {
			p.unsupported("type assert on poison: " + pv.Why)
		}
		p.unsupported(fmt.Sprintf("type assert on %T", x))
	}
	okb := false
	var res Value
	if iv.T != nil {
		if types.IsInterface(ins.AssertedType) {
			it := ins.AssertedType.Underlying().(*types.Interface)
			if types.Implements(iv.T, it) {
				okb = true
				res = iv
			}
		} else if types.Identical(iv.T, ins.AssertedType) {
			okb = true
			res = iv.V
		}
	}
	if ins.CommaOk {
		if !okb {
			res = p.zeroValue(ins.AssertedType)
		}
		return TupleV{[]Value{res, BoolV{p.ctx.Bool(okb)}}}
	}
	if !okb {
		p.goPanic("interface conversion failed to "+ins.AssertedType.String(), siteName(fn)+":type-assert")
	}
	return res
}

func (p *Path) indexValue(x, idx Value, xt, it types.Type, pos token.Pos, fn *ssa.Function) Value {
	c := p.ctx
	i := p.idx64(idx, it)
	switch xv := x.(type) {
	case ArrV:
		n := len(xv.E)
		p.implicit(c.ULT(i, c.BV(64, uint64(n))), "index-out-of-range", pos, fn)
		if i.IsConst() {
			return xv.E[i.Val]
		}
		if n > 0 {
			if _, ok := xv.E[0].(IntV); ok {
				res := xv.E[n-1].(IntV).T
				for k := n - 2; k >= 0; k-- {
					res = c.Ite(c.Eq(i, c.BV(64, uint64(k))), xv.E[k].(IntV).T, res)
				}
				return IntV{T: res}
			}
		}
		k := p.concretize(i, 64, "array index")
		return xv.E[k]
	case StringV:
		p.implicit(c.ULT(i, xv.Len), "index-out-of-range", pos, fn)
		return IntV{T: xv.Arr.readOrZero(c, c.Add(xv.Off, i))}
	}
	p.unsupported(fmt.Sprintf("index of %T", x))
	return nil
}

func (p *Path) indexAddr(x, idx Value, xt, it types.Type, pos token.Pos, fn *ssa.Function) Value {
	c := p.ctx
	i := p.idx64(idx, it)
	switch xv := x.(type) {
	case SliceV:
		p.implicit(c.ULT(i, xv.Len), "index-out-of-range", pos, fn)
		if xv.Arr != nil {
			return Ptr{Kind: PElem, Arr: xv.Arr, Off: c.Add(xv.Off, i)}
		}
		if xv.AC == nil {
			p.end("index-into-nil-slice")
		}
		k := p.concretize(c.Add(xv.Off, i), 64, "slice index")
		if int(k) >= len(xv.AC.E) {
			p.end("index-beyond-backing")
		}
		return ptrToCell(xv.AC.E[k])
	case Ptr:
		if xv.Kind == PNil {
			p.goPanic("nil pointer dereference (index)", siteName(fn)+":nil-deref")
		}
		switch xv.Kind {
		case PView:
			p.implicit(c.ULT(i, c.BV(64, uint64(xv.N))), "index-out-of-range", pos, fn)
			return Ptr{Kind: PElem, Arr: xv.Arr, Off: c.Add(p.viewOff(xv), i)}
		case PCell:
			ac, ok := xv.Cell.(*ArrCell)
			if !ok {
				p.unsupported(fmt.Sprintf("indexaddr into %T", xv.Cell))
			}
			p.implicit(c.ULT(i, c.BV(64, uint64(len(ac.E)))), "index-out-of-range", pos, fn)
			k := p.concretize(i, 300, "array index")
			return ptrToCell(ac.E[k])
		}
	}
	p.unsupported(fmt.Sprintf("indexaddr of %T", x))
	return nil
}

const maxAlloc = uint64(1) << 47

func (p *Path) makeSlice(t types.Type, ln, cp *Term, pos token.Pos, fn *ssa.Function) Value {
	c := p.ctx
	st := t.Underlying().(*types.Slice)
	p.implicit(c.ULE(ln, cp), "makeslice-len-out-of-range", pos, fn)
	p.implicit(c.ULE(cp, c.BV(64, maxAlloc)), "makeslice-len-out-of-range", pos, fn)
	if w, ok := intElem(st.Elem()); ok {
		n := -1
		if cp.IsConst() {
			n = int(cp.Val)
		}
		arr := newIntArr(n, w)
		return SliceV{Arr: arr, Off: c.BV(64, 0), Len: ln, Cap: cp}
	}
	n := p.concretize(cp, 64, "make cap")
	if n > 1<<14 {
		p.unsupported("make of huge non-integer slice")
	}
	e := make([]Cell, n)
	for i := range e {
		e[i] = p.newCell(st.Elem())
	}
	return SliceV{AC: &ArrCell{E: e, Elem: st.Elem()}, Off: c.BV(64, 0), Len: ln, Cap: c.BV(64, n)}
}

func (p *Path) sliceOp(fr *Frame, ins *ssa.Slice) Value {
	c := p.ctx
	x := p.get(fr, ins.X)
	opt := func(v ssa.Value) *Term {
		if v == nil {
			return nil
		}
		return p.idx64(p.get(fr, v), v.Type())
	}
	lo, hi, mx := opt(ins.Low), opt(ins.High), opt(ins.Max)
	if lo == nil {
		lo = c.BV(64, 0)
	}
	switch xv := x.(type) {
	case StringV:
		if hi == nil {
			hi = xv.Len
		}
		p.implicit(c.ULE(hi, xv.Len), "slice-bounds", ins.Pos(), fr.fn)
		p.implicit(c.ULE(lo, hi), "slice-bounds", ins.Pos(), fr.fn)
		return StringV{Arr: xv.Arr, Off: c.Add(xv.Off, lo), Len: c.Sub(hi, lo)}
	case SliceV:
		if hi == nil {
			hi = xv.Len
		}
		capv := xv.Cap
		if mx != nil {
			p.implicit(c.ULE(mx, xv.Cap), "slice-bounds", ins.Pos(), fr.fn)
			p.implicit(c.ULE(hi, mx), "slice-bounds", ins.Pos(), fr.fn)
			capv = mx
		} else {
			p.implicit(c.ULE(hi, xv.Cap), "slice-bounds", ins.Pos(), fr.fn)
		}
		p.implicit(c.ULE(lo, hi), "slice-bounds", ins.Pos(), fr.fn)
		return SliceV{Arr: xv.Arr, AC: xv.AC, Off: c.Add(xv.Off, lo), Len: c.Sub(hi, lo), Cap: c.Sub(capv, lo)}
	case Ptr:
		if xv.Kind == PNil {
			p.goPanic("nil pointer dereference (slice of nil array pointer)", siteName(fr.fn)+":nil-deref")
		}
		var n uint64
		var out SliceV
		switch xv.Kind {
		case PView:
			n = uint64(xv.N)
			out = SliceV{Arr: xv.Arr, Off: p.viewOff(xv)}
		case PCell:
			ac, ok := xv.Cell.(*ArrCell)
			if !ok {
				p.unsupported("slice of pointer to non-array")
			}
			n = uint64(len(ac.E))
			out = SliceV{AC: ac, Off: c.BV(64, 0)}
		default:
			p.unsupported("slice of element pointer")
		}
		if hi == nil {
			hi = c.BV(64, n)
		}
		capv := c.BV(64, n)
		if mx != nil {
			p.implicit(c.ULE(mx, capv), "slice-bounds", ins.Pos(), fr.fn)
			p.implicit(c.ULE(hi, mx), "slice-bounds", ins.Pos(), fr.fn)
			capv = mx
		} else {
			p.implicit(c.ULE(hi, capv), "slice-bounds", ins.Pos(), fr.fn)
		}
		p.implicit(c.ULE(lo, hi), "slice-bounds", ins.Pos(), fr.fn)
		out.Off = c.Add(out.Off, lo)
		out.Len = c.Sub(hi, lo)
		out.Cap = c.Sub(capv, lo)
		return out
	}
	p.unsupported(fmt.Sprintf("slice of %T", x))
	return nil
}

// ---------- maps ----------

func (p *Path) mapLookup(mv MapV, k Value, mt *types.Map) (Value, *Term) {
	if mv.M != nil {
		for _, e := range mv.M.E {
			eq := p.valEq(e.K, k)
			if p.branch(eq) {
				return e.V, p.ctx.True
			}
		}
	}
	return p.zeroValue(mt.Elem()), p.ctx.False
}

func (p *Path) mapUpdate(mv MapV, k, v Value) {
	for i, e := range mv.M.E {
		if p.branch(p.valEq(e.K, k)) {
			mv.M.E[i].V = v
			return
		}
	}
	mv.M.E = append(mv.M.E, MapEntry{k, v})
}

func (p *Path) mapDelete(mv MapV, k Value) {
	if mv.M == nil {
		return
	}
	for i, e := range mv.M.E {
		if p.branch(p.valEq(e.K, k)) {
			mv.M.E = append(append([]MapEntry{}, mv.M.E[:i]...), mv.M.E[i+1:]...)
			return
		}
	}
}

func (p *Path) iterNext(it IterV, ins *ssa.Next) Value {
	c := p.ctx
	if ins.IsString {
		s := it.Str
		pos := c.BV(64, uint64(*it.Pos))
		if !p.branch(c.ULT(pos, s.Len)) {
			return TupleV{[]Value{BoolV{c.False}, IntV{T: c.BV(64, 0)}, IntV{T: c.BV(32, 0)}}}
		}
		b0 := s.Arr.readOrZero(c, c.Add(s.Off, pos))
		if p.branch(c.ULT(b0, c.BV(8, 0x80))) {
			*it.Pos++
			return TupleV{[]Value{BoolV{c.True}, IntV{T: pos}, IntV{T: c.ZExt(b0, 24)}}}
		}
		// multi-byte: run the real decoder
		dec := p.eng.funcByName("unicode/utf8", "DecodeRuneInString")
		if dec == nil {
			p.unsupported("utf8.DecodeRuneInString not available")
		}
		rest := StringV{Arr: s.Arr, Off: c.Add(s.Off, pos), Len: c.Sub(s.Len, pos)}
		out := p.execFunction(dec, []Value{rest}, nil)
		r := out[0].(IntV).T
		sz := p.concretize(out[1].(IntV).T, 4, "rune size")
		*it.Pos += int(sz)
		return TupleV{[]Value{BoolV{c.True}, IntV{T: pos}, IntV{T: r}}}
	}
	if *it.Pos >= len(it.Entries) {
		mt := ins.Iter.(*ssa.Range).X.Type().Underlying().(*types.Map)
		return TupleV{[]Value{BoolV{c.False}, p.zeroValue(mt.Key()), p.zeroValue(mt.Elem())}}
	}
	e := it.Entries[*it.Pos]
	*it.Pos++
	return TupleV{[]Value{BoolV{c.True}, e.K, e.V}}
}

// ---------- channels (sequentialised) ----------

func (p *Path) chanRecv(x Value, commaOk bool, t types.Type) Value {
	ch, ok := x.(ChanV)
	if !ok || ch.C == nil {
		p.unsupported("receive on nil or non-channel")
	}
	if len(ch.C.Q) > 0 {
		v := ch.C.Q[0]
		ch.C.Q = ch.C.Q[1:]
		if commaOk {
			return TupleV{[]Value{v, BoolV{p.ctx.True}}}
		}
		return v
	}
	if ch.C.Closed {
		var et types.Type
		if commaOk {
			et = t.(*types.Tuple).At(0).Type()
		} else {
			et = t
		}
		z := p.zeroValue(et)
		if commaOk {
			return TupleV{[]Value{z, BoolV{p.ctx.False}}}
		}
		return z
	}
	p.unsupported("receive would block (sequentialised execution)")
	return nil
}

func (p *Path) selectOp(fr *Frame, ins *ssa.Select) Value {
	c := p.ctx
	nrecv := 0
	for _, st := range ins.States {
		if st.Dir == types.RecvOnly {
			nrecv++
		}
	}
	mk := func(idx int, recvOk bool, vals []Value) Value {
		out := []Value{IntV{T: c.BV(64, uint64(int64(idx)))}, BoolV{c.Bool(recvOk)}}
		ri := 0
		for _, st := range ins.States {
			if st.Dir == types.RecvOnly {
				if vals != nil && vals[ri] != nil {
					out = append(out, vals[ri])
				} else {
					out = append(out, p.zeroValue(st.Chan.Type().Underlying().(*types.Chan).Elem()))
				}
				ri++
			}
		}
		return TupleV{out}
	}
	ri := 0
	for i, st := range ins.States {
		chv := p.get(fr, st.Chan)
		ch, _ := chv.(ChanV)
		if st.Dir == types.SendOnly {
			if ch.C != nil && (len(ch.C.Q) < ch.C.Cap || ch.C.Cap == 0) {
				ch.C.Q = append(ch.C.Q, p.get(fr, st.Send))
				return mk(i, false, nil)
			}
			continue
		}
		if ch.C != nil && (len(ch.C.Q) > 0 || ch.C.Closed) {
			vals := make([]Value, nrecv)
			okv := true
			if len(ch.C.Q) > 0 {
				vals[ri] = ch.C.Q[0]
				ch.C.Q = ch.C.Q[1:]
			} else {
				okv = false
			}
			return mk(i, okv, vals)
		}
		ri++
	}
	if !ins.Blocking {
		return mk(-1, false, nil)
	}
	p.unsupported("select would block (sequentialised execution)")
	return nil
}

func typeString(t types.Type) string {
	return strings.ReplaceAll(t.String(), "github.com/dolthub/dolt/go/", "")
}
