package main

import (
	"fmt"
	"go/token"
	"math/bits"
	"go/types"

	"golang.org/x/tools/go/ssa"
)

// FSModel is the file-system model driven by the real code's calls (see fsmodel.go).
type FSModel struct{}

// envBool is a nondeterministic choice made by the environment (not part of the harness input vector).
func (p *Path) envBool(label string) bool {
	if p.tolerant > 0 {
		panic(tolerantFail{"environment choice in package initialiser"})
	}
	p.envNondet = true
	v := p.fresh("env_"+label, BoolSort)
	return p.branch(v)
}

// freshBytes returns a slice of arbitrary content and arbitrary length in [lo, hi].
func (p *Path) freshBytes(label string, lo, hi uint64) SliceV {
	c := p.ctx
	if p.tolerant > 0 {
		panic(tolerantFail{"environment bytes in package initialiser"})
	}
	p.envNondet = true
	n := p.fresh("env_"+label+"_len", BVSort(64))
	p.assume(c.ULE(c.BV(64, lo), n))
	p.assume(c.ULE(n, c.BV(64, hi)))
	arr := newIntArr(-1, 8)
	arr.Base = p.fresh("env_"+label+"_data", ArrSort(8))
	return SliceV{Arr: arr, Off: c.BV(64, 0), Len: n, Cap: n}
}

func addEnvIntrinsics(m map[string]intrinsic) {
	// collation weights: identity on code points (exact for utf8mb4_0900_bin, an abstraction for *_ai_ci whose
	// case/accent folding is go-mysql-server table data)
	m["(github.com/dolthub/go-mysql-server/sql.CollationID).Sorter"] = func(p *Path, fn *ssa.Function, a []Value, pos token.Pos, caller *ssa.Function) []Value {
		return []Value{FuncV{Builtin: "verif:sorter-identity"}}
	}
	// snappy: contents are opaque; Decode may fail on any input
	m["github.com/golang/snappy.Decode"] = func(p *Path, fn *ssa.Function, a []Value, pos token.Pos, caller *ssa.Function) []Value {
		if p.envBool("snappy_decode_ok") {
			return []Value{p.freshBytes("snappy_decoded", 0, 1<<32), IfaceV{}}
		}
		return []Value{p.zeroValue(fn.Signature.Results().At(0).Type()), p.newOpaqueError("snappy: corrupt input")}
	}
	m["github.com/golang/snappy.Encode"] = func(p *Path, fn *ssa.Function, a []Value, pos token.Pos, caller *ssa.Function) []Value {
		return []Value{p.freshBytes("snappy_encoded", 1, 1<<32)}
	}
	// uuid.New: 16 arbitrary bytes (the version/variant bits are not modelled; uniqueness is NOT assumed)
	m["github.com/google/uuid.New"] = func(p *Path, fn *ssa.Function, a []Value, pos token.Pos, caller *ssa.Function) []Value {
		if p.tolerant > 0 {
			panic(tolerantFail{"uuid in package initialiser"})
		}
		p.envNondet = true
		e := make([]Value, 16)
		for i := range e {
			e[i] = IntV{T: p.fresh("env_uuid", BVSort(8))}
		}
		return []Value{ArrV{e}}
	}
	// process environment: empty (no variable is set)
	m["os.Getenv"] = func(p *Path, fn *ssa.Function, a []Value, pos token.Pos, caller *ssa.Function) []Value {
		return []Value{p.stringConst("")}
	}
	m["syscall.Getenv"] = func(p *Path, fn *ssa.Function, a []Value, pos token.Pos, caller *ssa.Function) []Value {
		return []Value{p.stringConst(""), BoolV{p.ctx.False}}
	}
	m["os.LookupEnv"] = m["syscall.Getenv"]
	// errgroup: sequentialised. Go(f) runs f to completion at the call (the executor has one thread), the first
	// non-nil error is what Wait returns; the derived context is the parent (never cancelled). Exact for the
	// producer/consumer pair of journalWriter.readJournalIndex as long as the channel never fills up.
	m["golang.org/x/sync/errgroup.WithContext"] = func(p *Path, fn *ssa.Function, a []Value, pos token.Pos, caller *ssa.Function) []Value {
		gt := fn.Signature.Results().At(0).Type().(*types.Pointer).Elem()
		cell := p.newCell(gt)
		return []Value{Ptr{Kind: PCell, Cell: cell}, a[0]}
	}
	m["(*golang.org/x/sync/errgroup.Group).Go"] = func(p *Path, fn *ssa.Function, a []Value, pos token.Pos, caller *ssa.Function) []Value {
		g := a[0].(Ptr).Cell
		res := p.invoke(a[1].(FuncV), nil, pos, caller)
		if len(res) == 1 {
			if iv, ok := res[0].(IfaceV); ok && iv.T != nil {
				if _, seen := p.userData["errgroup"]; !seen {
					p.userData["errgroup"] = map[Cell]Value{}
				}
				mm := p.userData["errgroup"].(map[Cell]Value)
				if _, have := mm[g]; !have {
					mm[g] = iv
				}
			}
		}
		return nil
	}
	m["(*golang.org/x/sync/errgroup.Group).Wait"] = func(p *Path, fn *ssa.Function, a []Value, pos token.Pos, caller *ssa.Function) []Value {
		g := a[0].(Ptr).Cell
		if mm, ok := p.userData["errgroup"].(map[Cell]Value); ok {
			if e, have := mm[g]; have {
				return []Value{e}
			}
		}
		return []Value{IfaceV{}}
	}
	// fslock (flock(2) on dir/LOCK): the lock always succeeds and excludes; calls are trace events "flock:<op>"
	m["github.com/dolthub/fslock.New"] = func(p *Path, fn *ssa.Function, a []Value, pos token.Pos, caller *ssa.Function) []Value {
		lt := fn.Signature.Results().At(0).Type().(*types.Pointer).Elem()
		return []Value{Ptr{Kind: PCell, Cell: p.newCell(lt)}, IfaceV{}}
	}
	flock := func(op string) intrinsic {
		return func(p *Path, fn *ssa.Function, a []Value, pos token.Pos, caller *ssa.Function) []Value {
			p.trace = append(p.trace, "flock:"+op)
			return []Value{IfaceV{}}
		}
	}
	// verifFlockHeldElsewhere(true): another process holds the lock for the rest of the path: TryLock fails with
	// fslock.ErrLocked, LockWithTimeout with fslock.ErrTimeout (their documented results), nothing is acquired
	m["verif:verifFlockHeldElsewhere"] = func(p *Path, fn *ssa.Function, a []Value, pos token.Pos, caller *ssa.Function) []Value {
		held := p.branch(a[0].(BoolV).T)
		p.userData["flockHeld"] = held
		return nil
	}
	contended := func(errName string) intrinsic {
		ok := flock("lock")
		return func(p *Path, fn *ssa.Function, a []Value, pos token.Pos, caller *ssa.Function) []Value {
			if held, _ := p.userData["flockHeld"].(bool); held {
				p.trace = append(p.trace, "flock:contended")
				return []Value{p.globalValue("github.com/dolthub/fslock", errName)}
			}
			return ok(p, fn, a, pos, caller)
		}
	}
	m["(*github.com/dolthub/fslock.Lock).Lock"] = flock("lock")
	m["(*github.com/dolthub/fslock.Lock).TryLock"] = contended("ErrLocked")
	m["(*github.com/dolthub/fslock.Lock).LockWithTimeout"] = contended("ErrTimeout")
	m["(*github.com/dolthub/fslock.Lock).LockWithContext"] = flock("lock")
	m["(*github.com/dolthub/fslock.Lock).Unlock"] = flock("unlock")
	m["(*github.com/dolthub/fslock.Lock).Close"] = flock("close")
	// wall clock: an arbitrary instant (seconds since year 1 in ext, no monotonic reading)
	m["time.Now"] = func(p *Path, fn *ssa.Function, a []Value, pos token.Pos, caller *ssa.Function) []Value {
		if p.tolerant > 0 {
			panic(tolerantFail{"time.Now in package initialiser"})
		}
		p.envNondet = true
		c := p.ctx
		ext := p.fresh("env_now", BVSort(64))
		p.assume(c.SLE(c.BV(64, 0), ext))
		p.assume(c.SLT(ext, c.BV(64, 1<<40)))
		return []Value{StructV{F: []Value{IntV{T: c.BV(64, 0)}, IntV{T: ext}, Ptr{Kind: PNil}}}}
	}
	// elapsed time is only ever fed to latency statistics in the code under test: zero
	since := func(p *Path, fn *ssa.Function, a []Value, pos token.Pos, caller *ssa.Function) []Value {
		return []Value{IntV{T: p.ctx.BV(64, 0)}}
	}
	m["time.Since"] = since
	m["time.Until"] = since
	m["time.Sleep"] = func(p *Path, fn *ssa.Function, a []Value, pos token.Pos, caller *ssa.Function) []Value { return nil }
	// sha512 (table file names): Write consumes, Sum appends a fresh 64-byte token (see below; nothing in the
	// claimed properties compares two hashes computed from equal inputs)
	m["(*crypto/internal/fips140/sha512.Digest).Write"] = func(p *Path, fn *ssa.Function, a []Value, pos token.Pos, caller *ssa.Function) []Value {
		return []Value{IntV{T: a[1].(SliceV).Len}, IfaceV{}}
	}
	m["(*crypto/internal/fips140/sha512.Digest).Sum"] = func(p *Path, fn *ssa.Function, a []Value, pos token.Pos, caller *ssa.Function) []Value {
		// a fresh concrete token per call (first byte >= 0xE0): collision-free against every earlier token and against
		// the hashes harnesses use (NOT functional: equal inputs give different outputs)
		n, _ := p.userData["sha512calls"].(int)
		p.userData["sha512calls"] = n + 1
		arr := newIntArr(64, 8)
		for i := 0; i < 64; i++ {
			b := byte(n*37 + i*11 + 5)
			if i == 0 {
				b = 0xE0 | byte(n&0x1f)
			}
			arr.Ov[uint64(i)] = p.ctx.BV(8, uint64(b))
		}
		out := SliceV{Arr: arr, Off: p.ctx.BV(64, 0), Len: p.ctx.BV(64, 64), Cap: p.ctx.BV(64, 64)}
		return []Value{p.appendOp(a[1], out, pos, caller)}
	}
	// time.UnixMicro / (time.Time).UnixMicro as exact inverses: a Time made by UnixMicro carries its microsecond count
	// in ext and a marker location; UnixMicro on such a value returns the count. (The standard library's conversion
	// goes through seconds + nanoseconds with divisions by 10^6 and 10^3 each way.) Any other method applied to such
	// a value is executed from the library and meets the marker: unsupported, never silently wrong.
	m["time.UnixMicro"] = func(p *Path, fn *ssa.Function, a []Value, pos token.Pos, caller *ssa.Function) []Value {
		mark, ok := p.userData["microTimeMarker"].(Cell)
		if !ok {
			mark = &ScalarCell{V: PoisonV{"time.Time made by the UnixMicro stub used by other time methods"}}
			p.userData["microTimeMarker"] = mark
		}
		return []Value{StructV{F: []Value{IntV{T: p.ctx.BV(64, 0)}, IntV{T: p.intOf(a[0]).T}, Ptr{Kind: PCell, Cell: mark}}}}
	}
	m["(time.Time).UnixMicro"] = func(p *Path, fn *ssa.Function, a []Value, pos token.Pos, caller *ssa.Function) []Value {
		if sv, ok := a[0].(StructV); ok && len(sv.F) == 3 {
			if pt, ok := sv.F[2].(Ptr); ok && pt.Kind == PCell && pt.Cell == p.userData["microTimeMarker"] {
				return []Value{sv.F[1]}
			}
		}
		return p.execFunction(fn, a, nil)
	}
	// sort.Slice / sort.SliceStable (the library versions swap through reflection): a stable insertion sort over a slice
	// of concrete length <= 8 that calls the REAL less function and forks on its answers. Result: a sorted
	// permutation, stable. (sort.Slice does not promise stability; any order it may produce among equal elements is
	// not explored.)
	sortSlice := func(p *Path, fn *ssa.Function, a []Value, pos token.Pos, caller *ssa.Function) []Value {
		iv, ok := a[0].(IfaceV)
		if !ok || iv.T == nil {
			p.unsupported("sort.Slice of a nil interface")
		}
		sv, ok := iv.V.(SliceV)
		if !ok {
			p.unsupported("sort.Slice of a non-slice")
		}
		less := a[1].(FuncV)
		n := p.concLen(sv.Len, "sort.Slice length")
		if n > 8 {
			p.unsupported("sort.Slice of more than 8 elements")
		}
		off := int(p.concretize(sv.Off, 1, "sort.Slice offset"))
		c := p.ctx
		swap := func(i, j int) {
			if sv.AC != nil {
				x, y := p.loadCell(sv.AC.E[off+i]), p.loadCell(sv.AC.E[off+j])
				p.storeCell(sv.AC.E[off+i], y)
				p.storeCell(sv.AC.E[off+j], x)
				return
			}
			ii, jj := c.BV(64, uint64(off+i)), c.BV(64, uint64(off+j))
			x, y := sv.Arr.read(c, ii), sv.Arr.read(c, jj)
			sv.Arr.write(c, ii, y)
			sv.Arr.write(c, jj, x)
		}
		for i := 1; i < n; i++ {
			for j := i; j > 0; j-- {
				r := p.invoke(less, []Value{IntV{T: c.BV(64, uint64(j))}, IntV{T: c.BV(64, uint64(j-1))}}, pos, caller)
				if !p.branch(r[0].(BoolV).T) {
					break
				}
				swap(j, j-1)
			}
		}
		return nil
	}
	m["sort.Slice"] = sortSlice
	m["sort.SliceStable"] = sortSlice
	// civil time stub: verifCivilTime(y, mo, d, h, mi, s, ns) makes a time.Time whose Date(), Clock() and Nanosecond()
	// return exactly these components (natively: time.Date(..., time.UTC), for valid dates the same). The standard
	// library's conversion between instants and civil time is outside the claim.
	m["verif:verifCivilTime"] = func(p *Path, fn *ssa.Function, a []Value, pos token.Pos, caller *ssa.Function) []Value {
		comps := make([]Value, 7)
		for i := range comps {
			comps[i] = IntV{T: p.intOf(a[i]).T}
		}
		cell := &ScalarCell{V: TupleV{E: comps}}
		reg, _ := p.userData["civilCells"].(map[Cell]bool)
		if reg == nil {
			reg = map[Cell]bool{}
			p.userData["civilCells"] = reg
		}
		reg[cell] = true
		return []Value{StructV{F: []Value{IntV{T: p.ctx.BV(64, 0)}, IntV{T: p.ctx.BV(64, 0)}, Ptr{Kind: PCell, Cell: cell}}}}
	}
	civil := func(p *Path, v Value) ([]Value, bool) {
		sv, ok := v.(StructV)
		if !ok || len(sv.F) != 3 {
			return nil, false
		}
		pt, ok := sv.F[2].(Ptr)
		if !ok || pt.Kind != PCell {
			return nil, false
		}
		reg, _ := p.userData["civilCells"].(map[Cell]bool)
		if reg == nil || !reg[pt.Cell] {
			return nil, false
		}
		return pt.Cell.(*ScalarCell).V.(TupleV).E, true
	}
	m["(time.Time).Date"] = func(p *Path, fn *ssa.Function, a []Value, pos token.Pos, caller *ssa.Function) []Value {
		if c, ok := civil(p, a[0]); ok {
			return []Value{c[0], c[1], c[2]}
		}
		return p.execFunction(fn, a, nil)
	}
	m["(time.Time).Clock"] = func(p *Path, fn *ssa.Function, a []Value, pos token.Pos, caller *ssa.Function) []Value {
		if c, ok := civil(p, a[0]); ok {
			return []Value{c[3], c[4], c[5]}
		}
		return p.execFunction(fn, a, nil)
	}
	for i, name := range []string{"Year", "Month", "Day", "Hour", "Minute", "Second"} {
		i := i
		m["(time.Time)."+name] = func(p *Path, fn *ssa.Function, a []Value, pos token.Pos, caller *ssa.Function) []Value {
			if c, ok := civil(p, a[0]); ok {
				return []Value{c[i]}
			}
			return p.execFunction(fn, a, nil)
		}
	}
	m["(time.Time).Nanosecond"] = func(p *Path, fn *ssa.Function, a []Value, pos token.Pos, caller *ssa.Function) []Value {
		if c, ok := civil(p, a[0]); ok {
			return []Value{c[6]}
		}
		return p.execFunction(fn, a, nil)
	}
	// go-mysql-server ENUM / SET column types (concrete structs whose constructors build collation hash tables): the
	// harness's verifEnumType(n) / verifSetType(n) is natively the real type with n generated members; here it is the
	// zero struct, NumberOfElements returns the harness's (symbolic) n and Convert is the identity (values reach the
	// serializers out of storage already in the column's Go type)
	for _, k := range []string{"EnumType", "SetType"} {
		k := k
		m["verif:verif"+k] = func(p *Path, fn *ssa.Function, a []Value, pos token.Pos, caller *ssa.Function) []Value {
			p.userData["gms"+k] = p.intOf(a[0])
			return []Value{p.zeroValue(fn.Signature.Results().At(0).Type())}
		}
		recv := "(github.com/dolthub/go-mysql-server/sql/types." + k + ")."
		m[recv+"NumberOfElements"] = func(p *Path, fn *ssa.Function, a []Value, pos token.Pos, caller *ssa.Function) []Value {
			n, ok := p.userData["gms"+k].(IntV)
			if !ok {
				return p.execFunction(fn, a, nil)
			}
			return []Value{IntV{T: p.ctx.Extract(n.T, 15, 0)}}
		}
		m[recv+"Convert"] = func(p *Path, fn *ssa.Function, a []Value, pos token.Pos, caller *ssa.Function) []Value {
			if _, ok := p.userData["gms"+k].(IntV); !ok {
				return p.execFunction(fn, a, nil)
			}
			return []Value{a[2], IntV{T: p.ctx.BV(8, 0)}, IfaceV{}}
		}
	}
	// math/bits 128-bit helpers (the library bodies are long-division routines): exact wide-word semantics
	m["math/bits.Mul64"] = func(p *Path, fn *ssa.Function, a []Value, pos token.Pos, caller *ssa.Function) []Value {
		c := p.ctx
		x, y := p.intOf(a[0]).T, p.intOf(a[1]).T
		if x.IsConst() && y.IsConst() {
			hi, lo := bits.Mul64(x.Val, y.Val)
			return []Value{IntV{T: c.BV(64, hi)}, IntV{T: c.BV(64, lo)}}
		}
		prod := c.Mul(c.ZExt(x, 64), c.ZExt(y, 64))
		return []Value{IntV{T: c.Extract(prod, 127, 64)}, IntV{T: c.Extract(prod, 63, 0)}}
	}
	m["math/bits.Div64"] = func(p *Path, fn *ssa.Function, a []Value, pos token.Pos, caller *ssa.Function) []Value {
		c := p.ctx
		hi, lo, y := p.intOf(a[0]).T, p.intOf(a[1]).T, p.intOf(a[2]).T
		p.implicit(c.Not(c.Eq(y, c.BV(64, 0))), "divide-by-zero", pos, caller)
		p.implicit(c.ULT(hi, y), "bits.Div64-quotient-overflow", pos, caller)
		if hi.IsConst() && lo.IsConst() && y.IsConst() && y.Val != 0 && hi.Val < y.Val {
			q, r := bits.Div64(hi.Val, lo.Val, y.Val)
			return []Value{IntV{T: c.BV(64, q)}, IntV{T: c.BV(64, r)}}
		}
		n := c.Concat(hi, lo)
		d := c.ZExt(y, 64)
		return []Value{IntV{T: c.Extract(c.UDiv(n, d), 63, 0)}, IntV{T: c.Extract(c.URem(n, d), 63, 0)}}
	}
	// *prolly.MutableMap as an abstract dictionary (DESIGN 4.4): an association list of (key bytes, value bytes) per map
	// object; keys are compared byte for byte (forking on symbolic bytes). Contract assumed: the mutable map is a
	// dictionary (that the prolly tree implements one is property C11, outside this technique). Only Get, Put, Delete,
	// NodeStore and HasEdits are modelled.
	type mmEntry struct{ k, v Value }
	mmOf := func(p *Path, recv Value) *[]mmEntry {
		cell := recv.(Ptr).Cell
		reg, _ := p.userData["mutableMaps"].(map[Cell]*[]mmEntry)
		if reg == nil {
			reg = map[Cell]*[]mmEntry{}
			p.userData["mutableMaps"] = reg
		}
		if reg[cell] == nil {
			reg[cell] = &[]mmEntry{}
		}
		return reg[cell]
	}
	bytesEq := func(p *Path, a, b Value) bool {
		sa, sb := p.seqOf(a), p.seqOf(b)
		if !p.branch(p.ctx.Eq(sa.Len, sb.Len)) {
			return false
		}
		n := p.concLen(sa.Len, "map key length")
		eq := p.ctx.True
		for i := 0; i < n; i++ {
			ix := p.ctx.BV(64, uint64(i))
			eq = p.ctx.And(eq, p.ctx.Eq(p.seqAt(sa, ix), p.seqAt(sb, ix)))
		}
		return p.branch(eq)
	}
	m["verif:verifNewMutableMap"] = func(p *Path, fn *ssa.Function, a []Value, pos token.Pos, caller *ssa.Function) []Value {
		t := fn.Signature.Results().At(0).Type().(*types.Pointer).Elem()
		return []Value{Ptr{Kind: PCell, Cell: &ScalarCell{V: PoisonV{"abstract mutable map " + t.String()}}}}
	}
	m["prolly.MutableMap:Put"] = func(p *Path, fn *ssa.Function, a []Value, pos token.Pos, caller *ssa.Function) []Value {
		es := mmOf(p, a[0])
		for i := range *es {
			if bytesEq(p, (*es)[i].k, a[2]) {
				(*es)[i].v = a[3]
				return []Value{IfaceV{}}
			}
		}
		*es = append(*es, mmEntry{a[2], a[3]})
		return []Value{IfaceV{}}
	}
	m["prolly.MutableMap:Delete"] = func(p *Path, fn *ssa.Function, a []Value, pos token.Pos, caller *ssa.Function) []Value {
		es := mmOf(p, a[0])
		for i := range *es {
			if bytesEq(p, (*es)[i].k, a[2]) {
				*es = append(append([]mmEntry{}, (*es)[:i]...), (*es)[i+1:]...)
				break
			}
		}
		return []Value{IfaceV{}}
	}
	m["prolly.MutableMap:Get"] = func(p *Path, fn *ssa.Function, a []Value, pos token.Pos, caller *ssa.Function) []Value {
		es := mmOf(p, a[0])
		cb := a[3].(FuncV)
		z := p.ctx.BV(64, 0)
		for i := range *es {
			if bytesEq(p, (*es)[i].k, a[2]) {
				return p.invoke(cb, []Value{(*es)[i].k, (*es)[i].v}, pos, caller)
			}
		}
		return p.invoke(cb, []Value{SliceV{Off: z, Len: z, Cap: z}, SliceV{Off: z, Len: z, Cap: z}}, pos, caller)
	}
	m["prolly.MutableMap:NodeStore"] = func(p *Path, fn *ssa.Function, a []Value, pos token.Pos, caller *ssa.Function) []Value {
		return []Value{IfaceV{}}
	}
	// xxh3.Hash128 (keyless row ids): an uninterpreted function of the bytes, made collision-free on the inputs of one
	// path (ideal hash), returned as the two 64-bit halves
	m["github.com/zeebo/xxh3.Hash128"] = func(p *Path, fn *ssa.Function, a []Value, pos token.Pos, caller *ssa.Function) []Value {
		s := p.seqOf(a[0])
		lo := p.ufOverBytes("xxh3lo", 64, nil, s)
		hi := p.ufOverBytes("xxh3hi", 64, nil, s)
		n := p.concLen(s.Len, "xxh3 input length")
		args := make([]*Term, n)
		for i := range args {
			args[i] = p.seqAt(s, p.ctx.BV(64, uint64(i)))
		}
		p.idealChecksumAxioms(fmt.Sprintf("xxh3lo_%d", n), args, lo)
		// inputs of different lengths do not collide either
		type app struct {
			n  int
			lo *Term
		}
		all, _ := p.userData["xxh3apps"].([]app)
		for _, o := range all {
			if o.n != n {
				p.addPC(p.ctx.Not(p.ctx.Eq(lo, o.lo)))
			}
		}
		p.userData["xxh3apps"] = append(all[:len(all):len(all)], app{n, lo})
		return []Value{StructV{F: []Value{IntV{T: hi}, IntV{T: lo}}}}
	}
}
