package main

import (
	"go/token"

	"golang.org/x/tools/go/ssa"
)

// FSModel is the file-system model driven by the real code's calls (see fsmodel.go).
type FSModel struct{}

func addEnvIntrinsics(m map[string]intrinsic) {
	_ = token.NoPos
	var _ *ssa.Function
}
