package main

import (
	"os"
	"fmt"
	"go/token"
	"sort"
	"strings"
	"sync"

	"golang.org/x/tools/go/ssa"
)

// Decision is the outcome of one symbolic choice point on a path.
type Decision struct {
	V      int64 // 0/1 for branches, concrete value for concretisations
	Forced bool  // only one alternative was feasible (never flipped)
}

type NondetRec struct {
	Label string `json:"label"`
	Kind  string `json:"kind"` // u8 u16 u32 u64 i64 bool
	Width int    `json:"width"`
	Value uint64 `json:"value"`
	term  *Term
}

type ViolationRec struct {
	Harness string      `json:"harness"`
	Kind    string      `json:"kind"` // assert | panic
	Label   string      `json:"label"`
	Site    string      `json:"site"` // function:kind for implicit checks, label for asserts
	Pos     string      `json:"pos"`
	Detail  string      `json:"detail"`
	Vector  []NondetRec `json:"vector"`
	Path    []Decision  `json:"-"`
}

type OblRec struct {
	Harness string `json:"harness"`
	Kind    string `json:"kind"`
	Label   string `json:"label"`
	Site    string `json:"site"`
	Verdict string `json:"verdict"`
	Ms      int64  `json:"ms"`
	PCLen   int    `json:"pc_terms"`
}

type HarnessResult struct {
	mu            sync.Mutex
	Name          string
	Paths         int
	EndReasons    map[string]int
	Instrs        int64
	Obligations   int // non-trivial (solver-decided)
	Trivial       int // folded to true by the encoder
	Discharged    int
	Violations    []ViolationRec
	ViolCount     map[string]int // violations found per kind|site (only the first few vectors per site are kept)
	Inconclusive  []string
	CoverHit      map[string]bool
	CoverSeen     map[string]bool
	ReachHit      map[string]bool
	AssertSeen    map[string]int
	OblSamples    []OblRec
	SiteSet       map[string]bool
	Funcs         map[string]bool
	Stubs         map[string]bool
	Observations  map[string]string // for concrete runs
	MaxDecisions  int
	wall          float64
	Witnesses     []WitnessRec
}

// WitnessRec is a concrete input for one fully explored path with the values the encoding predicts for the
// harness's observation points; the driver replays it natively and compares (translator validation).
type WitnessRec struct {
	Harness      string            `json:"harness"`
	Vector       []NondetRec       `json:"vector"`
	Observations map[string]string `json:"observations"`
	UsesUF       bool              `json:"uses_uf"`
	Decisions    int               `json:"decisions"`
}

type obsRec struct {
	label string
	term  *Term
}

func newHarnessResult(name string) *HarnessResult {
	return &HarnessResult{Name: name, EndReasons: map[string]int{}, CoverHit: map[string]bool{}, CoverSeen: map[string]bool{},
		ReachHit: map[string]bool{}, AssertSeen: map[string]int{}, SiteSet: map[string]bool{}, ViolCount: map[string]int{}, Funcs: map[string]bool{}, Stubs: map[string]bool{},
		Observations: map[string]string{}}
}

type pathEnd struct{ reason string }
type inconclusiveEnd struct{ why string }

type Path struct {
	callStack []*ssa.Function
	eng     *Engine
	ctx     *Ctx
	sol     *Solver
	res     *HarnessResult
	harness string

	prefix    []Decision
	decisions []Decision
	pending   [][]Decision // sibling prefixes discovered on this path

	pc             []*Term
	pcMaybeInfeas  bool
	nondets        []*NondetRec
	concrete       map[string]uint64 // pinned nondet values (translator validation / replay inside the engine)
	concreteVec    []uint64
	concretePos    int
	useConcrete    bool

	globals   map[*ssa.Global]Cell
	initDone  map[*ssa.Package]bool
	initing   int
	strConsts map[string]*IntArrCell
	funcCells map[*ssa.Function]*int

	panicIsViolation bool
	unwind           int
	steps            int64
	depth            int
	freshN           int
	fs               *FSModel
	trace            []string
	curSite          string
	tolerant         int // >0 while running package initialisers
	userData         map[string]interface{}
	observes         []obsRec
	envNondet        bool
	model            map[string]uint64
	modelUpTo        int
	modelMemo        map[int]*Term
	modelHits        int
	pendObl          []pendingObl
	isInitPath       bool
	cloneMemo        map[interface{}]interface{}
}

type pendingObl struct {
	cond                             *Term
	kind, label, site, pos, detail string
}

func (p *Path) checking() bool { return len(p.decisions) >= len(p.prefix) }

func (p *Path) end(reason string) {
	if len(p.pendObl) > 0 && p.tolerant == 0 {
		p.flushObligations()
	}
	panic(pathEnd{reason})
}

func (p *Path) unsupported(why string) {
	if p.tolerant > 0 {
		panic(tolerantFail{why})
	}
	panic(inconclusiveEnd{"unsupported: " + why + " at " + p.curSite + " via " + p.stackString()})
}

var (
	forkProfile = os.Getenv("VERIF_FORKPROFILE") != ""
	forkMu      sync.Mutex
	forkSites   = map[string]int{}
)

func dumpForkProfile() {
	if !forkProfile {
		return
	}
	type kv struct {
		k string
		v int
	}
	var l []kv
	for k, v := range forkSites {
		l = append(l, kv{k, v})
	}
	sort.Slice(l, func(i, j int) bool { return l[i].v > l[j].v })
	for i, e := range l {
		if i >= 25 {
			break
		}
		fmt.Fprintf(os.Stderr, "FORK %6d %s\n", e.v, e.k)
	}
}

func (p *Path) stackString() string {
	var names []string
	for i := len(p.callStack) - 1; i >= 0 && len(names) < 8; i-- {
		names = append(names, p.callStack[i].Name())
	}
	return strings.Join(names, " < ")
}

type tolerantFail struct{ why string }

func (p *Path) fresh(prefix string, s Sort) *Term {
	if p.tolerant > 0 {
		panic(tolerantFail{"fresh symbolic value in package initialiser"})
	}
	p.freshN++
	return p.ctx.Var(fmt.Sprintf("%s!%d", sanitize(prefix), p.freshN), s)
}

func sanitize(s string) string {
	var sb strings.Builder
	for _, r := range s {
		if (r >= 'a' && r <= 'z') || (r >= 'A' && r <= 'Z') || (r >= '0' && r <= '9') || r == '_' || r == '.' {
			sb.WriteRune(r)
		} else {
			sb.WriteByte('_')
		}
	}
	if sb.Len() == 0 {
		return "v"
	}
	return sb.String()
}

// addPC appends c to the path condition (and to the solver).
func (p *Path) addPC(c *Term) {
	if c.IsTrue() {
		return
	}
	if len(p.pendObl) > 0 {
		p.flushObligations()
	}
	p.pc = append(p.pc, c)
	p.sol.Assert(c)
}

// assume restricts the path to c. The feasibility is checked lazily.
func (p *Path) assume(c *Term) {
	if c.IsTrue() {
		return
	}
	if p.tolerant > 0 {
		panic(tolerantFail{"assumption in package initialiser"})
	}
	if c.IsFalse() {
		p.end("assume-false")
	}
	p.addPC(c)
	p.pcMaybeInfeas = true
}

func (p *Path) record(d Decision) {
	p.decisions = append(p.decisions, d)
	if len(p.decisions) > p.eng.maxDecisions {
		panic(inconclusiveEnd{fmt.Sprintf("decision depth %d exceeded at %s", p.eng.maxDecisions, p.curSite)})
	}
}

// branch decides a symbolic condition, forking when both outcomes are feasible.
func (p *Path) branch(cond *Term) bool {
	if cond.IsConst() {
		return cond.Val == 1
	}
	if p.tolerant > 0 {
		panic(tolerantFail{"symbolic branch in package initialiser"})
	}
	if len(p.decisions) < len(p.prefix) {
		d := p.prefix[len(p.decisions)]
		p.record(d)
		if !d.Forced {
			if d.V == 1 {
				p.addPC(cond)
			} else {
				p.addPC(p.ctx.Not(cond))
			}
		} else {
			// implied by the path condition; keep it anyway, it is cheap and helps the solver
			if d.V == 1 {
				p.addPC(cond)
			} else {
				p.addPC(p.ctx.Not(cond))
			}
		}
		return d.V == 1
	}
	p.flushObligations()
	p.sol.site = p.curSite
	var rT, rF Result = -1, -1
	if v, ok := p.evalModel(cond); ok {
		if v {
			rT = Sat
		} else {
			rF = Sat
		}
	}
	if rT != Sat {
		var m map[string]uint64
		if rF == Sat {
			// keep the current model for the false side; ask only about the true side
			rT, m = p.sol.Check(cond, p.modelVars())
			if rT == Sat {
				p.setModelForSide(m, true)
			}
		} else {
			rT, m = p.sol.Check(cond, p.modelVars())
			if rT == Sat {
				p.setModel(m)
			}
		}
	}
	if rF != Sat {
		if rT == Unsat && !p.pcMaybeInfeas {
			rF = Sat
		} else {
			var m map[string]uint64
			rF, m = p.sol.Check(p.ctx.Not(cond), p.modelVars())
			if rF == Sat && rT != Sat {
				p.setModel(m)
			}
		}
	}
	if rT == Sat || rF == Sat {
		p.pcMaybeInfeas = false
	}
	tOK := rT != Unsat
	fOK := rF != Unsat
	switch {
	case tOK && fOK:
		if forkProfile {
			forkMu.Lock()
			forkSites[p.curSite+" in "+p.stackString()]++
			forkMu.Unlock()
		}
		sib := append(append([]Decision{}, p.decisions...), Decision{V: 0})
		p.pending = append(p.pending, sib)
		p.record(Decision{V: 1})
		p.addPC(cond)
		return true
	case tOK:
		p.record(Decision{V: 1, Forced: true})
		p.addPC(cond)
		return true
	case fOK:
		p.record(Decision{V: 0, Forced: true})
		p.addPC(p.ctx.Not(cond))
		return false
	}
	p.end("infeasible")
	return false
}

// concretize enumerates the feasible values of t (at most max of them) and forks on them.
func (p *Path) concretize(t *Term, max int, what string) uint64 {
	if t.IsConst() {
		return t.Val
	}
	if p.tolerant > 0 {
		panic(tolerantFail{"symbolic value in package initialiser"})
	}
	if len(p.decisions) < len(p.prefix) {
		d := p.prefix[len(p.decisions)]
		p.record(d)
		p.addPC(p.ctx.Eq(t, p.ctx.BV(t.S.W, uint64(d.V))))
		return uint64(d.V) & mask(t.S.W)
	}
	p.flushObligations()
	var vals []uint64
	excl := p.ctx.True
	probe := p.fresh("cz", t.S)
	p.addPC(p.ctx.Eq(probe, t))
	for {
		r, m := p.sol.Check(excl, []*Term{probe})
		if r == Unsat {
			break
		}
		if r == Unknown {
			panic(inconclusiveEnd{"unknown while concretising " + what + " at " + p.curSite})
		}
		v := m[probe.Name]
		vals = append(vals, v)
		if len(vals) > max {
			panic(inconclusiveEnd{fmt.Sprintf("more than %d feasible values for %s at %s", max, what, p.curSite)})
		}
		excl = p.ctx.And(excl, p.ctx.Not(p.ctx.Eq(probe, p.ctx.BV(t.S.W, v))))
	}
	if len(vals) == 0 {
		p.end("infeasible")
	}
	p.pcMaybeInfeas = false
	sort.Slice(vals, func(i, j int) bool { return vals[i] < vals[j] })
	for _, v := range vals[1:] {
		sib := append(append([]Decision{}, p.decisions...), Decision{V: int64(v)})
		p.pending = append(p.pending, sib)
	}
	p.record(Decision{V: int64(vals[0]), Forced: len(vals) == 1})
	p.addPC(p.ctx.Eq(t, p.ctx.BV(t.S.W, vals[0])))
	return vals[0]
}

func (p *Path) posOf(pos token.Pos) string {
	if !pos.IsValid() {
		return "?"
	}
	ps := p.eng.prog.Fset.Position(pos)
	return fmt.Sprintf("%s:%d", ps.Filename, ps.Line)
}

func (p *Path) modelVector(m map[string]uint64) []NondetRec {
	out := make([]NondetRec, len(p.nondets))
	for i, n := range p.nondets {
		out[i] = *n
		if n.term.IsConst() {
			out[i].Value = n.term.Val
		} else {
			out[i].Value = m[n.term.Name]
		}
	}
	return out
}

func (p *Path) nondetTerms() []*Term {
	var ts []*Term
	for _, n := range p.nondets {
		if !n.term.IsConst() {
			ts = append(ts, n.term)
		}
	}
	return ts
}

// obligation checks that cond holds on every input reaching this point; afterwards the path continues under cond.
func (p *Path) obligation(cond *Term, kind, label, site, pos, detail string) {
	if !p.checking() {
		// already decided by the path that forked us
		p.assume(cond)
		return
	}
	r := p.res
	if cond.IsTrue() {
		r.mu.Lock()
		r.Trivial++
		r.SiteSet[site] = true
		if kind == "assert" {
			r.AssertSeen[label]++
		}
		r.mu.Unlock()
		return
	}
	p.pendObl = append(p.pendObl, pendingObl{cond, kind, label, site, pos, detail})
	if len(p.pendObl) >= 64 || p.eng.noBatch {
		p.flushObligations()
	}
	if kind == "panic" && cond.IsConst() && !cond.IsTrue() {
		// the run-time check fails on every input of this path: the real program panics here, nothing behind it runs
		p.flushObligations()
		p.end("panic-violation")
	}
}

// flushObligations decides all pending obligations, in one query when they all hold. It runs before every new
// decision point, assumption and at the end of the path, so each obligation is decided under exactly the path
// condition it was raised with (nothing is added to the path condition while obligations are pending).
func (p *Path) flushObligations() {
	if len(p.pendObl) == 0 {
		return
	}
	pend := p.pendObl
	p.pendObl = nil
	r := p.res
	all := p.ctx.True
	for _, o := range pend {
		all = p.ctx.And(all, o.cond)
	}
	if len(pend) > 1 {
		decided := false
		if v, ok := p.evalModel(all); ok && !v {
			// some obligation fails under the current model: decide one by one
		} else {
			p.sol.site = "obligations(batch) " + pend[0].site
			res, _ := p.sol.Check(p.ctx.Not(all), nil)
			if res == Unsat {
				decided = true
				r.mu.Lock()
				for _, o := range pend {
					r.Obligations++
					r.Discharged++
					r.SiteSet[o.site] = true
					if o.kind == "assert" {
						r.AssertSeen[o.label]++
					}
					if len(r.OblSamples) < 40 {
						r.OblSamples = append(r.OblSamples, OblRec{Harness: p.harness, Kind: o.kind, Label: o.label, Site: o.site, Verdict: "unsat(batch of " + fmt.Sprint(len(pend)) + ")", PCLen: len(p.pc)})
					}
				}
				r.mu.Unlock()
				// implied by the path condition: no need to add them
			}
		}
		if decided {
			return
		}
	}
	for _, o := range pend {
		p.decideOne(o)
	}
}

func (p *Path) decideOne(o pendingObl) {
	r := p.res
	cond := o.cond
	p.sol.site = "obligation " + o.site
	var res Result
	var m map[string]uint64
	if v, ok := p.evalModel(cond); ok && !v {
		res, m = Sat, p.model
	} else {
		res, m = p.sol.Check(p.ctx.Not(cond), p.modelVars())
	}
	r.mu.Lock()
	r.Obligations++
	r.SiteSet[o.site] = true
	if o.kind == "assert" {
		r.AssertSeen[o.label]++
	}
	if len(r.OblSamples) < 40 {
		r.OblSamples = append(r.OblSamples, OblRec{Harness: p.harness, Kind: o.kind, Label: o.label, Site: o.site, Verdict: res.String(), PCLen: len(p.pc)})
	}
	switch res {
	case Unsat:
		r.Discharged++
	case Sat:
		v := ViolationRec{Harness: p.harness, Kind: o.kind, Label: o.label, Site: o.site, Pos: o.pos, Detail: o.detail, Vector: p.modelVector(m), Path: append([]Decision{}, p.decisions...)}
		r.addViolation(v)
	default:
		r.Inconclusive = append(r.Inconclusive, fmt.Sprintf("solver unknown on obligation %s/%s at %s", o.kind, o.label, o.site))
	}
	r.mu.Unlock()
	if res == Sat {
		p.pcMaybeInfeas = false
	}
	if res != Unsat {
		// continue under the obligation (a reported violation is not reported again further down this path)
		p.addPC(cond)
		p.pcMaybeInfeas = true
	}
}

// implicit is a Go run-time check (bounds, nil, division): an obligation in panic-is-violation mode, an assumption otherwise.
func (p *Path) implicit(cond *Term, kind string, instrPos token.Pos, fn *ssa.Function) {
	if cond.IsTrue() {
		return
	}
	site := siteName(fn) + ":" + kind
	if p.panicIsViolation && p.tolerant == 0 {
		p.obligation(cond, "panic", kind, site, p.posOf(instrPos), "run-time panic: "+kind)
		return
	}
	p.assume(cond)
}

func siteName(fn *ssa.Function) string {
	if fn == nil {
		return "?"
	}
	s := fn.String()
	s = strings.ReplaceAll(s, "github.com/dolthub/dolt/go/", "")
	return s
}

// goPanic models an explicit panic reaching this point.
// addViolation (caller holds r.mu) counts a violation and keeps the first few counterexample vectors per (kind, site).
// Exploration is NOT cut short by many violations of the same site, so that a known finding cannot hide a different one.
func (r *HarnessResult) addViolation(v ViolationRec) {
	k := v.Kind + "|" + v.Site
	r.ViolCount[k]++
	if r.ViolCount[k] <= 4 {
		r.Violations = append(r.Violations, v)
	}
}

func (p *Path) goPanic(msg, site string) {
	if p.tolerant > 0 {
		panic(tolerantFail{"panic during init: " + msg})
	}
	p.flushObligations()
	if p.panicIsViolation {
		if p.checking() {
			res, m := p.sol.Check(p.ctx.True, p.nondetTerms())
			r := p.res
			r.mu.Lock()
			r.Obligations++
			r.SiteSet[site] = true
			switch res {
			case Sat:
				r.addViolation(ViolationRec{Harness: p.harness, Kind: "panic", Label: "explicit-panic", Site: site, Pos: p.curSite, Detail: msg, Vector: p.modelVector(m), Path: append([]Decision{}, p.decisions...)})
			case Unsat:
				r.Discharged++
			default:
				r.Inconclusive = append(r.Inconclusive, "solver unknown on reachability of panic at "+site)
			}
			r.mu.Unlock()
		}
		p.end("panic-violation")
	}
	p.end("panic")
}

// ---- model reuse: the last satisfying assignment decides many feasibility questions without a query ----

func (p *Path) modelVars() []*Term {
	var vs []*Term
	for _, v := range p.ctx.vars {
		if v.S.K == SArr || (v.S.K == SBV && v.S.W > 64) {
			continue
		}
		vs = append(vs, v)
	}
	return vs
}

func (p *Path) setModel(m map[string]uint64) {
	if m == nil {
		p.model = nil
		return
	}
	p.model = m
	p.modelUpTo = 0
	p.modelMemo = map[int]*Term{}
}

// setModelForSide is used when the true side is taken next: the new model satisfies PC and cond.
func (p *Path) setModelForSide(m map[string]uint64, side bool) { p.setModel(m) }

// evalModel evaluates cond under the cached model if that model is known to satisfy the whole path condition.
func (p *Path) evalModel(cond *Term) (bool, bool) {
	if p.model == nil || p.eng.noModelReuse {
		return false, false
	}
	for p.modelUpTo < len(p.pc) {
		r := p.ctx.EvalUnder(p.pc[p.modelUpTo], p.model, p.modelMemo)
		if !r.IsTrue() {
			p.model = nil
			return false, false
		}
		p.modelUpTo++
	}
	r := p.ctx.EvalUnder(cond, p.model, p.modelMemo)
	if !r.IsConst() {
		return false, false
	}
	p.modelHits++
	return r.Val == 1, true
}
