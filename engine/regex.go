package main

// regexp stub: the pattern must be a concrete string at the Compile call; it is compiled with regexp/syntax
// (the same front end Go's regexp uses) and matched by a symbolic simulation of the compiled NFA over the bytes
// of the subject. Supported: byte-oriented programs (ASCII classes, anchors, repeats, alternation). If the program
// can consume non-ASCII runes (".", negated classes, ranges >= 0x80) the subject is assumed to be ASCII.

import (
	"fmt"
	"go/token"
	"regexp/syntax"
	"sort"

	"golang.org/x/tools/go/ssa"
)

type RegexpV struct {
	Pattern string
	Prog    *syntax.Prog
	NeedsASCII bool
}

func compileRegexp(pat string) (*RegexpV, error) {
	re, err := syntax.Parse(pat, syntax.Perl)
	if err != nil {
		return nil, err
	}
	re = re.Simplify()
	prog, err := syntax.Compile(re)
	if err != nil {
		return nil, err
	}
	rv := &RegexpV{Pattern: pat, Prog: prog}
	for _, in := range prog.Inst {
		switch in.Op {
		case syntax.InstRuneAny, syntax.InstRuneAnyNotNL:
			rv.NeedsASCII = true
		case syntax.InstRune, syntax.InstRune1:
			for i := 0; i+1 < len(in.Rune); i += 2 {
				if in.Rune[i+1] >= 0x80 {
					rv.NeedsASCII = true
				}
			}
			if len(in.Rune) == 1 && in.Rune[0] >= 0x80 {
				rv.NeedsASCII = true
			}
		}
	}
	return rv, nil
}

func (p *Path) regexpOf(v Value) *RegexpV {
	pt, ok := v.(Ptr)
	if !ok || pt.Kind != PCell {
		p.unsupported("regexp receiver is not a compiled pattern")
	}
	sc, ok := pt.Cell.(*ScalarCell)
	if !ok {
		p.unsupported("regexp receiver is not a compiled pattern")
	}
	rv, ok := sc.V.(*RegexpV)
	if !ok {
		if pv, ok := sc.V.(PoisonV); ok {
			p.unsupported("regexp was not compiled: " + pv.Why)
		}
		p.unsupported("regexp receiver is not a compiled pattern")
	}
	return rv
}

// runeMatches builds the condition that byte b (as a rune < 0x80, or a non-ASCII byte that matches nothing)
// is accepted by instruction in.
func (p *Path) runeMatches(in *syntax.Inst, b *Term) *Term {
	c := p.ctx
	ascii := c.ULT(b, c.BV(8, 0x80))
	switch in.Op {
	case syntax.InstRuneAny:
		return c.True
	case syntax.InstRuneAnyNotNL:
		return c.Not(c.Eq(b, c.BV(8, '\n')))
	}
	fold := syntax.Flags(in.Arg)&syntax.FoldCase != 0
	inRange := func(x *Term) *Term {
		r := c.False
		if len(in.Rune) == 1 {
			if in.Rune[0] < 0x80 {
				r = c.Eq(x, c.BV(8, uint64(in.Rune[0])))
			}
			return r
		}
		for i := 0; i+1 < len(in.Rune); i += 2 {
			lo, hi := in.Rune[i], in.Rune[i+1]
			if lo >= 0x80 {
				continue
			}
			if hi >= 0x80 {
				hi = 0x7f
			}
			r = c.Or(r, c.And(c.ULE(c.BV(8, uint64(lo)), x), c.ULE(x, c.BV(8, uint64(hi)))))
		}
		return r
	}
	m := inRange(b)
	if fold {
		// simple ASCII case folding
		isUpper := c.And(c.ULE(c.BV(8, 'A'), b), c.ULE(b, c.BV(8, 'Z')))
		isLower := c.And(c.ULE(c.BV(8, 'a'), b), c.ULE(b, c.BV(8, 'z')))
		m = c.Or(m, c.And(isUpper, inRange(c.Add(b, c.BV(8, 32)))))
		m = c.Or(m, c.And(isLower, inRange(c.Sub(b, c.BV(8, 32)))))
	}
	return c.And(ascii, m)
}

func (p *Path) isWordByte(b *Term) *Term {
	c := p.ctx
	r := c.And(c.ULE(c.BV(8, 'a'), b), c.ULE(b, c.BV(8, 'z')))
	r = c.Or(r, c.And(c.ULE(c.BV(8, 'A'), b), c.ULE(b, c.BV(8, 'Z'))))
	r = c.Or(r, c.And(c.ULE(c.BV(8, '0'), b), c.ULE(b, c.BV(8, '9'))))
	return c.Or(r, c.Eq(b, c.BV(8, '_')))
}

// regexpMatch returns the condition that the pattern matches somewhere in s (Go's unanchored MatchString).
func (p *Path) regexpMatch(rv *RegexpV, s seq) *Term {
	c := p.ctx
	n := p.concLen(s.Len, "regexp subject length")
	bytes := make([]*Term, n)
	for i := 0; i < n; i++ {
		bytes[i] = p.seqAt(s, c.BV(64, uint64(i)))
		if rv.NeedsASCII {
			p.assume(c.ULT(bytes[i], c.BV(8, 0x80)))
			p.noteAssumption("regexp " + rv.Pattern + " can consume non-ASCII runes: subject restricted to ASCII")
		}
	}
	prog := rv.Prog
	emptyCond := func(op syntax.EmptyOp, pos int) *Term {
		r := c.True
		if op&syntax.EmptyBeginText != 0 && pos != 0 {
			return c.False
		}
		if op&syntax.EmptyEndText != 0 && pos != n {
			return c.False
		}
		if op&syntax.EmptyBeginLine != 0 && pos != 0 {
			r = c.And(r, c.Eq(bytes[pos-1], c.BV(8, '\n')))
		}
		if op&syntax.EmptyEndLine != 0 && pos != n {
			r = c.And(r, c.Eq(bytes[pos], c.BV(8, '\n')))
		}
		if op&(syntax.EmptyWordBoundary|syntax.EmptyNoWordBoundary) != 0 {
			before, after := c.False, c.False
			if pos > 0 {
				before = p.isWordByte(bytes[pos-1])
			}
			if pos < n {
				after = p.isWordByte(bytes[pos])
			}
			boundary := c.Not(c.Eq(before, after))
			if op&syntax.EmptyWordBoundary != 0 {
				r = c.And(r, boundary)
			}
			if op&syntax.EmptyNoWordBoundary != 0 {
				r = c.And(r, c.Not(boundary))
			}
		}
		return r
	}
	matched := c.False
	// active[pc] = condition under which a thread is at pc (a rune instruction or match) at the current position
	active := map[int]*Term{}
	var add func(pc int, cond *Term, pos int, onPath map[int]bool, into map[int]*Term)
	add = func(pc int, cond *Term, pos int, onPath map[int]bool, into map[int]*Term) {
		if cond.IsFalse() || onPath[pc] {
			return
		}
		in := &prog.Inst[pc]
		switch in.Op {
		case syntax.InstFail:
		case syntax.InstAlt, syntax.InstAltMatch:
			onPath[pc] = true
			add(int(in.Out), cond, pos, onPath, into)
			add(int(in.Arg), cond, pos, onPath, into)
			delete(onPath, pc)
		case syntax.InstCapture, syntax.InstNop:
			onPath[pc] = true
			add(int(in.Out), cond, pos, onPath, into)
			delete(onPath, pc)
		case syntax.InstEmptyWidth:
			onPath[pc] = true
			add(int(in.Out), c.And(cond, emptyCond(syntax.EmptyOp(in.Arg), pos)), pos, onPath, into)
			delete(onPath, pc)
		default: // rune instructions and match
			if old, ok := into[pc]; ok {
				into[pc] = c.Or(old, cond)
			} else {
				into[pc] = cond
			}
		}
	}
	for pos := 0; pos <= n; pos++ {
		// unanchored search: a new thread may start at every position
		add(prog.Start, c.True, pos, map[int]bool{}, active)
		next := map[int]*Term{}
		pcs := make([]int, 0, len(active))
		for pc := range active {
			pcs = append(pcs, pc)
		}
		sort.Ints(pcs)
		for _, pc := range pcs {
			cond := active[pc]
			in := &prog.Inst[pc]
			if in.Op == syntax.InstMatch {
				matched = c.Or(matched, cond)
				continue
			}
			if pos < n {
				add(int(in.Out), c.And(cond, p.runeMatches(in, bytes[pos])), pos+1, map[int]bool{}, next)
			}
		}
		active = next
	}
	return matched
}

func addRegexpIntrinsics(m map[string]intrinsic) {
	compile := func(must bool) intrinsic {
		return func(p *Path, fn *ssa.Function, a []Value, pos token.Pos, caller *ssa.Function) []Value {
			pat := p.strArg(a[0], "regexp pattern")
			rv, err := compileRegexp(pat)
			if err != nil {
				if must {
					p.goPanic("regexp: Compile("+pat+"): "+err.Error(), "regexp.MustCompile:explicit-panic")
				}
				return []Value{Ptr{Kind: PNil}, p.newOpaqueError("regexp: " + err.Error())}
			}
			ptr := Ptr{Kind: PCell, Cell: &ScalarCell{rv}}
			if must {
				return []Value{ptr}
			}
			return []Value{ptr, IfaceV{}}
		}
	}
	m["regexp.MustCompile"] = compile(true)
	m["regexp.Compile"] = compile(false)
	match := func(p *Path, fn *ssa.Function, a []Value, pos token.Pos, caller *ssa.Function) []Value {
		rv := p.regexpOf(a[0])
		return []Value{BoolV{p.regexpMatch(rv, p.seqOf(a[1]))}}
	}
	m["(*regexp.Regexp).MatchString"] = match
	m["(*regexp.Regexp).Match"] = match
	m["(*regexp.Regexp).FindStringSubmatch"] = func(p *Path, fn *ssa.Function, a []Value, pos token.Pos, caller *ssa.Function) []Value {
		rv := p.regexpOf(a[0])
		c := p.ctx
		mt := p.regexpMatch(rv, p.seqOf(a[1]))
		if p.branch(mt) {
			// only nil-ness and element 0 are modelled (whole-subject match for anchored patterns)
			cell := &ScalarCell{a[1]}
			ac := &ArrCell{E: []Cell{cell}, Elem: nil}
			p.noteAssumption(fmt.Sprintf("FindStringSubmatch(%s): only nil-ness of the result is modelled", rv.Pattern))
			return []Value{SliceV{AC: ac, Off: c.BV(64, 0), Len: c.BV(64, 1), Cap: c.BV(64, 1)}}
		}
		return []Value{SliceV{Off: c.BV(64, 0), Len: c.BV(64, 0), Cap: c.BV(64, 0)}}
	}
	m["(*regexp.Regexp).String"] = func(p *Path, fn *ssa.Function, a []Value, pos token.Pos, caller *ssa.Function) []Value {
		return []Value{p.stringConst(p.regexpOf(a[0]).Pattern)}
	}
}
