package main

import (
	"hash/crc32"
	"fmt"
	"go/token"
	"go/types"
	"strings"

	"golang.org/x/tools/go/ssa"
)

func (p *Path) strArg(v Value, what string) string {
	s, ok := v.(StringV)
	if !ok {
		p.unsupported(what + ": expected string")
	}
	str, ok := p.concreteString(s)
	if !ok {
		p.unsupported(what + ": string must be concrete")
	}
	return str
}

func (p *Path) newNondet(label, kind string, w int) *Term {
	idx := len(p.nondets)
	rec := &NondetRec{Label: label, Kind: kind, Width: w}
	var t *Term
	if p.useConcrete {
		if p.concretePos >= len(p.concreteVec) {
			panic(inconclusiveEnd{"concrete vector too short"})
		}
		v := p.concreteVec[p.concretePos]
		p.concretePos++
		if p.eng.pinMode {
			if kind == "bool" {
				t = p.ctx.Var(fmt.Sprintf("nd%d_%s", idx, sanitize(label)), BoolSort)
				p.addPC(p.ctx.Eq(t, p.ctx.Bool(v != 0)))
			} else {
				t = p.ctx.Var(fmt.Sprintf("nd%d_%s", idx, sanitize(label)), BVSort(w))
				p.addPC(p.ctx.Eq(t, p.ctx.BV(w, v)))
			}
		} else if kind == "bool" {
			t = p.ctx.Bool(v != 0)
		} else {
			t = p.ctx.BV(w, v)
		}
	} else if kind == "bool" {
		t = p.ctx.Var(fmt.Sprintf("nd%d_%s", idx, sanitize(label)), BoolSort)
	} else {
		t = p.ctx.Var(fmt.Sprintf("nd%d_%s", idx, sanitize(label)), BVSort(w))
	}
	rec.term = t
	p.nondets = append(p.nondets, rec)
	return t
}

func boolArg(v Value) *Term { return v.(BoolV).T }

// fewValues: a search result over a mostly concrete string (at most 2 symbolic comparisons) is forked into its
// feasible concrete values, so that the slices cut at it keep concrete offsets; results over symbolic strings stay
// ite-terms (forking there would multiply paths).
func (p *Path) fewValues(res *Term, nsym int, what string) *Term {
	if res.IsConst() || nsym == 0 || nsym > 2 || p.tolerant > 0 {
		return res
	}
	return p.ctx.BV(64, p.concretize(res, 8, what+" result"))
}

func buildIntrinsics() map[string]intrinsic {
	m := map[string]intrinsic{}
	nd := func(kind string, w int) intrinsic {
		return func(p *Path, fn *ssa.Function, a []Value, pos token.Pos, caller *ssa.Function) []Value {
			t := p.newNondet(p.strArg(a[0], "nondet label"), kind, w)
			if kind == "bool" {
				return []Value{BoolV{t}}
			}
			return []Value{IntV{T: t}}
		}
	}
	m["verif:verifNondetU8"] = nd("u8", 8)
	m["verif:verifNondetU16"] = nd("u16", 16)
	m["verif:verifNondetU32"] = nd("u32", 32)
	m["verif:verifNondetU64"] = nd("u64", 64)
	m["verif:verifNondetInt"] = nd("i64", 64)
	m["verif:verifNondetI64"] = nd("i64", 64)
	m["verif:verifNondetI32"] = nd("i32", 32)
	m["verif:verifNondetI16"] = nd("i16", 16)
	m["verif:verifNondetI8"] = nd("i8", 8)
	m["verif:verifNondetBool"] = nd("bool", 1)
	// verifDivHint(a, c, q, r int64): a lemma supplied by the harness, "a / c == q and a % c == r" (Go's truncated
	// division, c a positive constant). It is NOT trusted: the defining conditions are decided by the solver here and
	// the run is inconclusive unless they are valid under the path condition. Once proven, the executor uses q and r
	// whenever the code under test divides the very same term a by c, so that the code's quotient and remainder are the
	// harness's own variables (instead of fresh ones tied to them only through a 64-bit multiplication).
	m["verif:verifDivHint"] = func(p *Path, fn *ssa.Function, a []Value, pos token.Pos, caller *ssa.Function) []Value {
		c := p.ctx
		x, d, q, r := p.intOf(a[0]).T, p.intOf(a[1]).T, p.intOf(a[2]).T, p.intOf(a[3]).T
		if !d.IsConst() || int64(d.Val) < 3 {
			p.unsupported("verifDivHint: divisor must be a constant >= 3")
		}
		w := x.S.W
		zero := c.BV(w, 0)
		mag := d.Val
		lim := (uint64(1) << uint(w-1)) / mag
		cond := c.And(c.Eq(x, c.Add(c.Mul(q, d), r)), c.And(c.SLE(c.BV(w, -lim), q), c.SLE(q, c.BV(w, lim))))
		nonneg := c.SLE(zero, x)
		cond = c.And(cond, c.Implies(nonneg, c.And(c.SLE(zero, r), c.SLT(r, d))))
		cond = c.And(cond, c.Implies(c.Not(nonneg), c.And(c.SLT(c.Neg(d), r), c.SLE(r, zero))))
		p.flushObligations()
		p.sol.site = "verifDivHint"
		res, _ := p.sol.Check(c.Not(cond), nil)
		if res != Unsat {
			panic(inconclusiveEnd{fmt.Sprintf("verifDivHint not proven (%v) at %s", res, p.curSite)})
		}
		p.userData[fmt.Sprintf("div:%p:%d:%d:%v", x, d.Val&maskW(w), w, true)] = [2]*Term{q, r}
		p.noteAssumption("division lemmas supplied by the harness are proven by the solver before use (verifDivHint)")
		return nil
	}
	m["verif:verifNondetIntRange"] = func(p *Path, fn *ssa.Function, a []Value, pos token.Pos, caller *ssa.Function) []Value {
		t := p.newNondet(p.strArg(a[0], "nondet label"), "i64", 64)
		c := p.ctx
		p.assume(c.SLE(p.intOf(a[1]).T, t))
		p.assume(c.SLE(t, p.intOf(a[2]).T))
		return []Value{IntV{T: t}}
	}
	m["verif:verifNondetBytes"] = func(p *Path, fn *ssa.Function, a []Value, pos token.Pos, caller *ssa.Function) []Value {
		label := p.strArg(a[0], "nondet label")
		n := int(p.concretize(p.intOf(a[1]).T, 4096, "nondet bytes length"))
		arr := newIntArr(n, 8)
		arr.Label = label
		for i := 0; i < n; i++ {
			arr.Ov[uint64(i)] = p.newNondet(fmt.Sprintf("%s[%d]", label, i), "u8", 8)
		}
		c := p.ctx
		return []Value{SliceV{Arr: arr, Off: c.BV(64, 0), Len: c.BV(64, uint64(n)), Cap: c.BV(64, uint64(n))}}
	}
	m["verif:verifAssume"] = func(p *Path, fn *ssa.Function, a []Value, pos token.Pos, caller *ssa.Function) []Value {
		p.assume(boolArg(a[0]))
		return nil
	}
	m["verif:verifAssert"] = func(p *Path, fn *ssa.Function, a []Value, pos token.Pos, caller *ssa.Function) []Value {
		label := p.strArg(a[1], "assert label")
		p.obligation(boolArg(a[0]), "assert", label, label, p.posOf(pos), "assertion "+label)
		return nil
	}
	m["verif:verifCover"] = func(p *Path, fn *ssa.Function, a []Value, pos token.Pos, caller *ssa.Function) []Value {
		label := p.strArg(a[1], "cover label")
		cond := boolArg(a[0])
		r := p.res
		r.mu.Lock()
		r.CoverSeen[label] = true
		hit := r.CoverHit[label]
		r.mu.Unlock()
		if hit || !p.checking() || cond.IsFalse() {
			return nil
		}
		ok := cond.IsTrue() && !p.pcMaybeInfeas
		if !ok {
			res, _ := p.sol.Check(cond, nil)
			ok = res == Sat
		}
		if ok {
			r.mu.Lock()
			r.CoverHit[label] = true
			r.mu.Unlock()
		}
		return nil
	}
	m["verif:verifReach"] = func(p *Path, fn *ssa.Function, a []Value, pos token.Pos, caller *ssa.Function) []Value {
		label := p.strArg(a[0], "reach label")
		r := p.res
		r.mu.Lock()
		hit := r.ReachHit[label]
		r.CoverSeen["reach:"+label] = true
		r.mu.Unlock()
		if hit || !p.checking() {
			return nil
		}
		ok := !p.pcMaybeInfeas
		if !ok {
			res, _ := p.sol.Check(p.ctx.True, nil)
			ok = res == Sat
			if ok {
				p.pcMaybeInfeas = false
			}
		}
		if ok {
			r.mu.Lock()
			r.ReachHit[label] = true
			r.CoverHit["reach:"+label] = true
			r.mu.Unlock()
		}
		return nil
	}
	m["verif:verifObserve"] = func(p *Path, fn *ssa.Function, a []Value, pos token.Pos, caller *ssa.Function) []Value {
		label := p.strArg(a[0], "observe label")
		if !p.useConcrete {
			p.observes = append(p.observes, obsRec{label, p.intOf(a[1]).T})
			return nil
		}
		t := p.intOf(a[1]).T
		var val string
		if t.IsConst() {
			val = fmt.Sprintf("%d", t.Val)
		} else {
			probe := p.fresh("obs", t.S)
			p.addPC(p.ctx.Eq(probe, t))
			res, mdl := p.sol.Check(p.ctx.True, []*Term{probe})
			if res != Sat {
				val = "?" + res.String()
			} else {
				v := mdl[probe.Name]
				// uniqueness
				r2, _ := p.sol.Check(p.ctx.Not(p.ctx.Eq(probe, p.ctx.BV(t.S.W, v))), nil)
				if r2 != Unsat {
					val = fmt.Sprintf("?nonunique(%d)", v)
				} else {
					val = fmt.Sprintf("%d", v)
				}
			}
		}
		r := p.res
		r.mu.Lock()
		k := label
		for i := 1; ; i++ {
			if _, ok := r.Observations[k]; !ok {
				break
			}
			k = fmt.Sprintf("%s#%d", label, i)
		}
		r.Observations[k] = val
		r.mu.Unlock()
		return nil
	}
	m["verif:verifPanicIsViolation"] = func(p *Path, fn *ssa.Function, a []Value, pos token.Pos, caller *ssa.Function) []Value {
		p.panicIsViolation = true
		return nil
	}
	m["verif:verifIdealChecksums"] = func(p *Path, fn *ssa.Function, a []Value, pos token.Pos, caller *ssa.Function) []Value {
		if p.userData == nil {
			p.userData = map[string]interface{}{}
		}
		p.userData["idealChecksums"] = true
		return nil
	}
	m["verif:verifPanicIsIgnored"] = func(p *Path, fn *ssa.Function, a []Value, pos token.Pos, caller *ssa.Function) []Value {
		p.panicIsViolation = false
		return nil
	}
	m["verif:verifUnwind"] = func(p *Path, fn *ssa.Function, a []Value, pos token.Pos, caller *ssa.Function) []Value {
		p.unwind = int(p.concretize(p.intOf(a[0]).T, 1, "unwind bound"))
		return nil
	}
	m["verif:verifAnd"] = func(p *Path, fn *ssa.Function, a []Value, pos token.Pos, caller *ssa.Function) []Value {
		return []Value{BoolV{p.ctx.And(boolArg(a[0]), boolArg(a[1]))}}
	}
	m["verif:verifOr"] = func(p *Path, fn *ssa.Function, a []Value, pos token.Pos, caller *ssa.Function) []Value {
		return []Value{BoolV{p.ctx.Or(boolArg(a[0]), boolArg(a[1]))}}
	}
	m["verif:verifImplies"] = func(p *Path, fn *ssa.Function, a []Value, pos token.Pos, caller *ssa.Function) []Value {
		return []Value{BoolV{p.ctx.Implies(boolArg(a[0]), boolArg(a[1]))}}
	}
	m["verif:verifIteU64"] = func(p *Path, fn *ssa.Function, a []Value, pos token.Pos, caller *ssa.Function) []Value {
		return []Value{IntV{T: p.ctx.Ite(boolArg(a[0]), p.intOf(a[1]).T, p.intOf(a[2]).T)}}
	}
	m["verif:verifIteInt"] = m["verif:verifIteU64"]
	m["verif:verifIn"] = func(p *Path, fn *ssa.Function, a []Value, pos token.Pos, caller *ssa.Function) []Value {
		set := p.strArg(a[1], "verifIn set")
		b := p.intOf(a[0]).T
		r := p.ctx.False
		for i := 0; i < len(set); i++ {
			r = p.ctx.Or(r, p.ctx.Eq(b, p.ctx.BV(b.S.W, uint64(set[i]))))
		}
		return []Value{BoolV{r}}
	}
	// verifBytesEq(a, b []byte) bool : equality as one term (no forking)
	m["verif:verifBytesEq"] = func(p *Path, fn *ssa.Function, a []Value, pos token.Pos, caller *ssa.Function) []Value {
		return []Value{BoolV{p.seqEq(p.seqOf(a[0]), p.seqOf(a[1]))}}
	}
	m["verif:verifStrEq"] = m["verif:verifBytesEq"]
	m["verif:verifConcrete"] = func(p *Path, fn *ssa.Function, a []Value, pos token.Pos, caller *ssa.Function) []Value {
		// verifConcrete(x int, max int) int : fork over the feasible values of x
		mx := int(p.concretize(p.intOf(a[1]).T, 1, "verifConcrete max"))
		v := p.concretize(p.intOf(a[0]).T, mx, "verifConcrete")
		return []Value{IntV{T: p.ctx.BV(64, v)}}
	}
	m["verif:verifTrace"] = func(p *Path, fn *ssa.Function, a []Value, pos token.Pos, caller *ssa.Function) []Value {
		p.trace = append(p.trace, p.strArg(a[0], "trace event"))
		return nil
	}
	// verifTraceCount(prefix string) int : number of trace events with the prefix
	m["verif:verifTraceCount"] = func(p *Path, fn *ssa.Function, a []Value, pos token.Pos, caller *ssa.Function) []Value {
		pre := p.strArg(a[0], "trace prefix")
		n := 0
		for _, e := range p.trace {
			if strings.HasPrefix(e, pre) {
				n++
			}
		}
		return []Value{IntV{T: p.ctx.BV(64, uint64(n))}}
	}
	// verifTraceIndex(prefix string, k int) int : position of the k-th event with prefix, -1 if none
	m["verif:verifTraceIndex"] = func(p *Path, fn *ssa.Function, a []Value, pos token.Pos, caller *ssa.Function) []Value {
		pre := p.strArg(a[0], "trace prefix")
		k := int(p.concretize(p.intOf(a[1]).T, 1, "trace k"))
		idx := -1
		for i, e := range p.trace {
			if strings.HasPrefix(e, pre) {
				if k == 0 {
					idx = i
					break
				}
				k--
			}
		}
		return []Value{IntV{T: p.ctx.BV(64, uint64(int64(idx)))}}
	}
	m["verif:verifTraceLen"] = func(p *Path, fn *ssa.Function, a []Value, pos token.Pos, caller *ssa.Function) []Value {
		return []Value{IntV{T: p.ctx.BV(64, uint64(len(p.trace)))}}
	}
	// verifUF32(name string, data []byte) uint32: uninterpreted function of the bytes (length concretised)
	m["verif:verifUF32"] = func(p *Path, fn *ssa.Function, a []Value, pos token.Pos, caller *ssa.Function) []Value {
		return []Value{IntV{T: p.ufOverBytes(p.strArg(a[0], "uf name"), 32, nil, p.seqOf(a[1]))}}
	}

	addBytesIntrinsics(m)
	addSyncIntrinsics(m)
	addMiscIntrinsics(m)
	addEnvIntrinsics(m)
	addFSIntrinsics(m)
	addRegexpIntrinsics(m)
	return m
}

// ufOverBytes applies an uninterpreted function (one symbol per length) to the bytes of s and optional extra args.
func (p *Path) ufOverBytes(name string, resW int, extra []*Term, s seq) *Term {
	n := p.concLen(s.Len, "uninterpreted function input length")
	args := append([]*Term{}, extra...)
	for i := 0; i < n; i++ {
		args = append(args, p.seqAt(s, p.ctx.BV(64, uint64(i))))
	}
	if len(args) == 0 {
		return p.ctx.Var(fmt.Sprintf("%s_0", name), BVSort(resW))
	}
	sym := fmt.Sprintf("%s_%d", name, n)
	res := p.ctx.UF(sym, BVSort(resW), args...)
	if p.userData["idealChecksums"] != nil && strings.HasPrefix(name, "crc32") {
		p.idealChecksumAxioms(sym, args, res)
	}
	return res
}

func allConst(ts []*Term) bool {
	for _, t := range ts {
		if !t.IsConst() {
			return false
		}
	}
	return true
}

type ufApp struct {
	args []*Term
	res  *Term
}

// idealChecksumAxioms (harness opt-in: verifIdealChecksums) makes the uninterpreted checksum collision-free on the
// applications that occur on this path: for every earlier application g(y) of the same symbol, g(x) = g(y) => x = y.
// Pairwise injectivity over finitely many applications is consistent, so it cannot make a path vacuous; it removes
// exactly the counterexamples that need a checksum collision (which native replay with the real crc32 would not
// reproduce). It is part of the claim and is listed among the stubs.
func (p *Path) idealChecksumAxioms(sym string, args []*Term, res *Term) {
	c := p.ctx
	apps, _ := p.userData["ufApps:"+sym].([]ufApp)
	for _, o := range apps {
		if o.res == res {
			continue
		}
		if allConst(args) && allConst(o.args) {
			continue // both pinned to their real checksums
		}
		same := c.Bool(true)
		for i := range args {
			same = c.And(same, c.Eq(args[i], o.args[i]))
		}
		p.addPC(c.Implies(c.Eq(res, o.res), same))
	}
	p.userData["ufApps:"+sym] = append(apps[:len(apps):len(apps)], ufApp{args: args, res: res})
	p.noteAssumption("crc32 is collision-free on the inputs compared on one path (ideal checksum, verifIdealChecksums)")
}

func addBytesIntrinsics(m map[string]intrinsic) {
	eq := func(p *Path, fn *ssa.Function, a []Value, pos token.Pos, caller *ssa.Function) []Value {
		return []Value{BoolV{p.seqEq(p.seqOf(a[0]), p.seqOf(a[1]))}}
	}
	m["bytes.Equal"] = eq
	m["internal/bytealg.Equal"] = eq
	cmp := func(p *Path, fn *ssa.Function, a []Value, pos token.Pos, caller *ssa.Function) []Value {
		return []Value{IntV{T: p.seqCompare(p.seqOf(a[0]), p.seqOf(a[1]))}}
	}
	m["bytes.Compare"] = cmp
	m["internal/bytealg.Compare"] = cmp
	m["strings.Compare"] = cmp
	m["internal/bytealg.CompareString"] = cmp
	indexByte := func(p *Path, fn *ssa.Function, a []Value, pos token.Pos, caller *ssa.Function) []Value {
		c := p.ctx
		s := p.seqOf(a[0])
		b := p.intOf(a[1]).T
		n := p.concLen(s.Len, "IndexByte length")
		res := c.BV(64, ^uint64(0))
		nsym := 0
		for i := n - 1; i >= 0; i-- {
			e := c.Eq(p.seqAt(s, c.BV(64, uint64(i))), b)
			if !e.IsConst() {
				nsym++
			}
			res = c.Ite(e, c.BV(64, uint64(i)), res)
		}
		return []Value{IntV{T: p.fewValues(res, nsym, "IndexByte")}}
	}
	for _, n := range []string{"bytes.IndexByte", "strings.IndexByte", "internal/bytealg.IndexByte", "internal/bytealg.IndexByteString", "internal/stringslite.IndexByte"} {
		m[n] = indexByte
	}
	lastIndexByte := func(p *Path, fn *ssa.Function, a []Value, pos token.Pos, caller *ssa.Function) []Value {
		c := p.ctx
		s := p.seqOf(a[0])
		b := p.intOf(a[1]).T
		n := p.concLen(s.Len, "LastIndexByte length")
		res := c.BV(64, ^uint64(0))
		nsym := 0
		for i := 0; i < n; i++ {
			e := c.Eq(p.seqAt(s, c.BV(64, uint64(i))), b)
			if !e.IsConst() {
				nsym++
			}
			res = c.Ite(e, c.BV(64, uint64(i)), res)
		}
		return []Value{IntV{T: p.fewValues(res, nsym, "LastIndexByte")}}
	}
	m["strings.LastIndexByte"] = lastIndexByte
	m["bytes.LastIndexByte"] = lastIndexByte
	m["internal/bytealg.LastIndexByteString"] = lastIndexByte
	m["internal/bytealg.LastIndexByte"] = lastIndexByte
	index := func(p *Path, fn *ssa.Function, a []Value, pos token.Pos, caller *ssa.Function) []Value {
		c := p.ctx
		s, sub := p.seqOf(a[0]), p.seqOf(a[1])
		n := p.concLen(s.Len, "Index length")
		k := p.concLen(sub.Len, "Index substring length")
		res := c.BV(64, ^uint64(0))
		nsym := 0
		for i := n - k; i >= 0; i-- {
			mt := c.True
			for j := 0; j < k; j++ {
				mt = c.And(mt, c.Eq(p.seqAt(s, c.BV(64, uint64(i+j))), p.seqAt(sub, c.BV(64, uint64(j)))))
			}
			if !mt.IsConst() {
				nsym++
			}
			res = c.Ite(mt, c.BV(64, uint64(i)), res)
		}
		return []Value{IntV{T: p.fewValues(res, nsym, "Index")}}
	}
	for _, n := range []string{"strings.Index", "bytes.Index", "internal/bytealg.Index", "internal/bytealg.IndexString", "internal/stringslite.Index"} {
		m[n] = index
	}
	count := func(p *Path, fn *ssa.Function, a []Value, pos token.Pos, caller *ssa.Function) []Value {
		c := p.ctx
		s := p.seqOf(a[0])
		b := p.intOf(a[1]).T
		n := p.concLen(s.Len, "Count length")
		res := c.BV(64, 0)
		nsym := 0
		for i := 0; i < n; i++ {
			e := c.Eq(p.seqAt(s, c.BV(64, uint64(i))), b)
			if !e.IsConst() {
				nsym++
			}
			res = c.Add(res, c.Ite(e, c.BV(64, 1), c.BV(64, 0)))
		}
		return []Value{IntV{T: p.fewValues(res, nsym, "Count")}}
	}
	m["internal/bytealg.Count"] = count
	m["internal/bytealg.CountString"] = count
	m["internal/bytealg.MakeNoZero"] = func(p *Path, fn *ssa.Function, a []Value, pos token.Pos, caller *ssa.Function) []Value {
		c := p.ctx
		n := p.intOf(a[0]).T
		k := -1
		if n.IsConst() {
			k = int(n.Val)
		}
		return []Value{SliceV{Arr: newIntArr(k, 8), Off: c.BV(64, 0), Len: n, Cap: n}}
	}
	clone := func(p *Path, fn *ssa.Function, a []Value, pos token.Pos, caller *ssa.Function) []Value { return []Value{a[0]} }
	m["strings.Clone"] = clone
	m["internal/stringslite.Clone"] = clone
	m["internal/abi.NoEscape"] = clone
	m["internal/abi.Escape"] = clone
}

func addSyncIntrinsics(m map[string]intrinsic) {
	ev := func(name string) intrinsic {
		return func(p *Path, fn *ssa.Function, a []Value, pos token.Pos, caller *ssa.Function) []Value {
			id := ""
			if pt, ok := a[0].(Ptr); ok && pt.Kind == PCell {
				id = fmt.Sprintf("%p", pt.Cell)
			}
			p.trace = append(p.trace, name+":"+p.lockName(id))
			return nil
		}
	}
	m["(*sync.Mutex).Lock"] = ev("lock")
	m["(*sync.Mutex).Unlock"] = ev("unlock")
	m["(*sync.RWMutex).Lock"] = ev("lock")
	m["(*sync.RWMutex).Unlock"] = ev("unlock")
	m["(*sync.RWMutex).RLock"] = ev("rlock")
	m["(*sync.RWMutex).RUnlock"] = ev("runlock")
	m["(*sync.Mutex).TryLock"] = func(p *Path, fn *ssa.Function, a []Value, pos token.Pos, caller *ssa.Function) []Value {
		ev("lock")(p, fn, a, pos, caller)
		return []Value{BoolV{p.ctx.True}}
	}
	nop := func(p *Path, fn *ssa.Function, a []Value, pos token.Pos, caller *ssa.Function) []Value { return nil }
	m["(*sync.WaitGroup).Add"] = nop
	m["(*sync.WaitGroup).Done"] = nop
	m["(*sync.WaitGroup).Wait"] = nop
	m["(*sync.Cond).Broadcast"] = nop
	m["(*sync.Cond).Signal"] = nop
	m["(*sync.Cond).Wait"] = func(p *Path, fn *ssa.Function, a []Value, pos token.Pos, caller *ssa.Function) []Value {
		p.unsupported("sync.Cond.Wait would block")
		return nil
	}
	m["(*sync.Pool).Put"] = nop
	m["(*sync.Pool).Get"] = func(p *Path, fn *ssa.Function, a []Value, pos token.Pos, caller *ssa.Function) []Value {
		pt := a[0].(Ptr)
		sc := pt.Cell.(*StructCell)
		// field "New" is the last field of sync.Pool
		newf := p.loadCell(sc.F[len(sc.F)-1]).(FuncV)
		if newf.Fn == nil {
			return []Value{IfaceV{}}
		}
		return p.invoke(newf, nil, pos, caller)
	}
	m["(*sync.Once).Do"] = func(p *Path, fn *ssa.Function, a []Value, pos token.Pos, caller *ssa.Function) []Value {
		pt := a[0].(Ptr)
		key := fmt.Sprintf("once:%p", pt.Cell)
		if _, done := p.userData[key]; done {
			return nil
		}
		p.userData[key] = true
		p.invoke(a[1].(FuncV), nil, pos, caller)
		return nil
	}
	// sync/atomic function forms
	load := func(p *Path, fn *ssa.Function, a []Value, pos token.Pos, caller *ssa.Function) []Value {
		return []Value{p.load(a[0].(Ptr), p.curSite)}
	}
	store := func(p *Path, fn *ssa.Function, a []Value, pos token.Pos, caller *ssa.Function) []Value {
		p.store(a[0].(Ptr), a[1], p.curSite)
		return nil
	}
	add := func(p *Path, fn *ssa.Function, a []Value, pos token.Pos, caller *ssa.Function) []Value {
		old := p.intOf(p.load(a[0].(Ptr), p.curSite))
		nv := IntV{T: p.ctx.Add(old.T, p.intOf(a[1]).T)}
		p.store(a[0].(Ptr), nv, p.curSite)
		return []Value{nv}
	}
	swap := func(p *Path, fn *ssa.Function, a []Value, pos token.Pos, caller *ssa.Function) []Value {
		old := p.load(a[0].(Ptr), p.curSite)
		p.store(a[0].(Ptr), a[1], p.curSite)
		return []Value{old}
	}
	cas := func(p *Path, fn *ssa.Function, a []Value, pos token.Pos, caller *ssa.Function) []Value {
		old := p.load(a[0].(Ptr), p.curSite)
		if p.branch(p.valEq(old, a[1])) {
			p.store(a[0].(Ptr), a[2], p.curSite)
			return []Value{BoolV{p.ctx.True}}
		}
		return []Value{BoolV{p.ctx.False}}
	}
	for _, t := range []string{"Int32", "Int64", "Uint32", "Uint64", "Uintptr", "Pointer"} {
		m["sync/atomic.Load"+t] = load
		m["sync/atomic.Store"+t] = store
		m["sync/atomic.Swap"+t] = swap
		m["sync/atomic.CompareAndSwap"+t] = cas
		if t != "Pointer" {
			m["sync/atomic.Add"+t] = add
		}
	}
	for _, t := range []string{"Int32", "Int64", "Uint32", "Uint64"} {
		m["sync/atomic.And"+t] = func(p *Path, fn *ssa.Function, a []Value, pos token.Pos, caller *ssa.Function) []Value {
			old := p.intOf(p.load(a[0].(Ptr), p.curSite))
			p.store(a[0].(Ptr), IntV{T: p.ctx.BAnd(old.T, p.intOf(a[1]).T)}, p.curSite)
			return []Value{old}
		}
		m["sync/atomic.Or"+t] = func(p *Path, fn *ssa.Function, a []Value, pos token.Pos, caller *ssa.Function) []Value {
			old := p.intOf(p.load(a[0].(Ptr), p.curSite))
			p.store(a[0].(Ptr), IntV{T: p.ctx.BOr(old.T, p.intOf(a[1]).T)}, p.curSite)
			return []Value{old}
		}
	}
}

func (p *Path) lockName(id string) string {
	names, _ := p.userData["locknames"].(map[string]string)
	if names == nil {
		names = map[string]string{}
		p.userData["locknames"] = names
	}
	if n, ok := names[id]; ok {
		return n
	}
	n := fmt.Sprintf("m%d", len(names))
	names[id] = n
	return n
}

func (p *Path) errorType(pkg, name string) types.Type {
	sp := p.eng.pkgByPath[pkg]
	if sp == nil {
		p.unsupported("package " + pkg + " not loaded")
	}
	tn := sp.Type(name)
	if tn == nil {
		p.unsupported("type " + pkg + "." + name + " not found")
	}
	return types.NewPointer(tn.Type())
}

// newOpaqueError makes a fresh *errors.errorString (distinct identity) carrying msg.
func (p *Path) newOpaqueError(msg string) Value {
	t := p.errorType("errors", "errorString")
	cell := p.newCell(t.(*types.Pointer).Elem()).(*StructCell)
	p.storeCell(cell.F[0], p.stringConst(msg))
	return IfaceV{T: t, V: Ptr{Kind: PCell, Cell: cell}}
}

func (p *Path) methodNamed(t types.Type, name string) *ssa.Function {
	ms := p.eng.prog.MethodSets.MethodSet(t)
	for i := 0; i < ms.Len(); i++ {
		if ms.At(i).Obj().Name() == name {
			p.eng.buildMu.Lock()
			fn := p.eng.prog.MethodValue(ms.At(i))
			p.eng.buildMu.Unlock()
			return fn
		}
	}
	return nil
}

func (p *Path) unwrapErr(e IfaceV) (IfaceV, bool) {
	if e.T == nil {
		return IfaceV{}, false
	}
	m := p.methodNamed(e.T, "Unwrap")
	if m == nil || m.Signature.Results().Len() != 1 {
		return IfaceV{}, false
	}
	if !types.IsInterface(m.Signature.Results().At(0).Type()) {
		return IfaceV{}, false // Unwrap() []error not supported
	}
	out := p.invoke(FuncV{Fn: m}, []Value{e.V}, token.NoPos, nil)
	iv, ok := out[0].(IfaceV)
	return iv, ok
}

func addMiscIntrinsics(m map[string]intrinsic) {
	m["errors.Is"] = func(p *Path, fn *ssa.Function, a []Value, pos token.Pos, caller *ssa.Function) []Value {
		err, _ := a[0].(IfaceV)
		target, _ := a[1].(IfaceV)
		for i := 0; i < 16; i++ {
			if err.T == nil {
				return []Value{BoolV{p.ctx.Bool(target.T == nil)}}
			}
			if target.T != nil && types.Identical(err.T, target.T) && types.Comparable(err.T) {
				if p.branch(p.valEq(err.V, target.V)) {
					return []Value{BoolV{p.ctx.True}}
				}
			}
			if im := p.methodNamed(err.T, "Is"); im != nil && im.Signature.Params().Len() == 1 {
				out := p.invoke(FuncV{Fn: im}, []Value{err.V, target}, pos, caller)
				if p.branch(out[0].(BoolV).T) {
					return []Value{BoolV{p.ctx.True}}
				}
			}
			next, ok := p.unwrapErr(err)
			if !ok {
				return []Value{BoolV{p.ctx.False}}
			}
			err = next
		}
		p.unsupported("errors.Is chain too long")
		return nil
	}
	m["errors.As"] = func(p *Path, fn *ssa.Function, a []Value, pos token.Pos, caller *ssa.Function) []Value {
		err, _ := a[0].(IfaceV)
		tgt, _ := a[1].(IfaceV)
		if tgt.T == nil {
			p.goPanic("errors.As: target cannot be nil", "errors.As:explicit-panic")
		}
		pt, ok := tgt.T.Underlying().(*types.Pointer)
		if !ok {
			p.unsupported("errors.As target not a pointer")
		}
		want := pt.Elem()
		for i := 0; i < 16; i++ {
			if err.T == nil {
				return []Value{BoolV{p.ctx.False}}
			}
			if types.IsInterface(want) {
				if types.Implements(err.T, want.Underlying().(*types.Interface)) {
					p.store(tgt.V.(Ptr), err, p.curSite)
					return []Value{BoolV{p.ctx.True}}
				}
			} else if types.Identical(err.T, want) {
				p.store(tgt.V.(Ptr), err.V, p.curSite)
				return []Value{BoolV{p.ctx.True}}
			}
			next, ok := p.unwrapErr(err)
			if !ok {
				return []Value{BoolV{p.ctx.False}}
			}
			err = next
		}
		p.unsupported("errors.As chain too long")
		return nil
	}
	errorf := func(p *Path, fn *ssa.Function, a []Value, pos token.Pos, caller *ssa.Function) []Value {
		format := "fmt.Errorf"
		if s, ok := a[0].(StringV); ok {
			if str, ok := p.concreteString(s); ok {
				format = str
			}
		}
		if strings.Contains(format, "%w") && len(a) > 1 {
			// find the first error among the variadic args
			if sv, ok := a[1].(SliceV); ok && sv.AC != nil {
				n := p.concLen(sv.Len, "Errorf args")
				off := p.concLen(sv.Off, "Errorf args")
				for i := 0; i < n; i++ {
					v := p.loadCell(sv.AC.E[off+i])
					if iv, ok := v.(IfaceV); ok && iv.T != nil && p.methodNamed(iv.T, "Error") != nil {
						t := p.errorType("fmt", "wrapError")
						cell := p.newCell(t.(*types.Pointer).Elem()).(*StructCell)
						p.storeCell(cell.F[0], p.stringConst(format))
						p.storeCell(cell.F[1], iv)
						return []Value{IfaceV{T: t, V: Ptr{Kind: PCell, Cell: cell}}}
					}
				}
			}
		}
		return []Value{p.newOpaqueError(format)}
	}
	m["fmt.Errorf"] = errorf
	sprintf := func(p *Path, fn *ssa.Function, a []Value, pos token.Pos, caller *ssa.Function) []Value {
		return []Value{p.stringConst("<fmt>")}
	}
	m["fmt.Sprintf"] = sprintf
	m["fmt.Sprint"] = sprintf
	m["fmt.Sprintln"] = sprintf
	nop := func(p *Path, fn *ssa.Function, a []Value, pos token.Pos, caller *ssa.Function) []Value { return nil }
	zeroResults := func(p *Path, fn *ssa.Function, a []Value, pos token.Pos, caller *ssa.Function) []Value {
		res := fn.Signature.Results()
		out := make([]Value, res.Len())
		for i := range out {
			out[i] = p.zeroValue(res.At(i).Type())
		}
		return out
	}
	for _, n := range []string{"fmt.Printf", "fmt.Println", "fmt.Print", "fmt.Fprintf", "fmt.Fprintln", "fmt.Fprint"} {
		m[n] = zeroResults
	}
	m["runtime.SetFinalizer"] = nop
	m["runtime.KeepAlive"] = nop
	m["runtime.GC"] = nop
	m["runtime.Gosched"] = nop
	m["runtime/debug.Stack"] = zeroResults
	m["runtime/debug.PrintStack"] = nop
	m["runtime.Stack"] = zeroResults
	m["runtime.Caller"] = zeroResults
	m["runtime.Callers"] = zeroResults
	m["runtime/trace.StartRegion"] = zeroResults
	m["(*runtime/trace.Region).End"] = nop
	m["runtime/trace.IsEnabled"] = zeroResults

	// math bit casts
	m["math.Float64bits"] = func(p *Path, fn *ssa.Function, a []Value, pos token.Pos, caller *ssa.Function) []Value {
		return []Value{IntV{T: a[0].(FloatV).T}}
	}
	m["math.Float32bits"] = m["math.Float64bits"]
	m["math.Float64frombits"] = func(p *Path, fn *ssa.Function, a []Value, pos token.Pos, caller *ssa.Function) []Value {
		return []Value{FloatV{p.intOf(a[0]).T}}
	}
	m["math.Float32frombits"] = m["math.Float64frombits"]
	m["math.IsNaN"] = func(p *Path, fn *ssa.Function, a []Value, pos token.Pos, caller *ssa.Function) []Value {
		return []Value{BoolV{p.ctx.FPIsNaN(a[0].(FloatV).T)}}
	}

	// checksums as uninterpreted functions
	// crc32: an uninterpreted function of (seed, bytes); when the polynomial is known and seed and bytes are all
	// constants the REAL checksum is computed and the uninterpreted application is pinned to it (so that symbolic
	// applications that turn out equal in a model stay consistent).
	crcUpdate := func(p *Path, seed *Term, poly uint32, havePoly bool, s seq) *Term {
		res := p.ufOverBytes("crc32u", 32, []*Term{seed}, s)
		if !havePoly || !seed.IsConst() {
			return res
		}
		n := p.concLen(s.Len, "crc input length")
		buf := make([]byte, n)
		for i := 0; i < n; i++ {
			t := p.seqAt(s, p.ctx.BV(64, uint64(i)))
			if !t.IsConst() {
				return res
			}
			buf[i] = byte(t.Val)
		}
		v := crc32.Update(uint32(seed.Val), crc32.MakeTable(poly), buf)
		k := p.ctx.BV(32, uint64(v))
		p.addPC(p.ctx.Eq(res, k))
		return k
	}
	polyOf := func(v Value) (uint32, bool) {
		if pt, ok := v.(Ptr); ok && pt.Kind == PCell {
			if sc, ok := pt.Cell.(*ScalarCell); ok {
				if iv, ok := sc.V.(IntV); ok && iv.T.IsConst() {
					return uint32(iv.T.Val), true
				}
			}
		}
		return 0, false
	}
	m["hash/crc32.Update"] = func(p *Path, fn *ssa.Function, a []Value, pos token.Pos, caller *ssa.Function) []Value {
		poly, ok := polyOf(a[1])
		return []Value{IntV{T: crcUpdate(p, p.intOf(a[0]).T, poly, ok, p.seqOf(a[2]))}}
	}
	m["hash/crc32.Checksum"] = func(p *Path, fn *ssa.Function, a []Value, pos token.Pos, caller *ssa.Function) []Value {
		poly, ok := polyOf(a[1])
		return []Value{IntV{T: crcUpdate(p, p.ctx.BV(32, 0), poly, ok, p.seqOf(a[0]))}}
	}
	m["hash/crc32.MakeTable"] = func(p *Path, fn *ssa.Function, a []Value, pos token.Pos, caller *ssa.Function) []Value {
		// the table is never read (Update/Checksum are intrinsics): a cell that remembers the polynomial
		return []Value{Ptr{Kind: PCell, Cell: &ScalarCell{V: IntV{T: p.intOf(a[0]).T}}}}
	}
	m["hash/crc32.ChecksumIEEE"] = func(p *Path, fn *ssa.Function, a []Value, pos token.Pos, caller *ssa.Function) []Value {
		return []Value{IntV{T: p.ufOverBytes("crc32ieee", 32, nil, p.seqOf(a[0]))}}
	}
}

func (p *Path) unsafeBuiltin(name string, args []Value) ([]Value, bool) {
	c := p.ctx
	switch name {
	case "builtin:SliceData":
		s := args[0].(SliceV)
		if s.Arr == nil {
			if s.AC != nil {
				p.unsupported("unsafe.SliceData of generic slice")
			}
			return []Value{Ptr{Kind: PNil}}, true
		}
		return []Value{Ptr{Kind: PElem, Arr: s.Arr, Off: s.Off}}, true
	case "builtin:StringData":
		s := args[0].(StringV)
		if s.Arr == nil {
			return []Value{Ptr{Kind: PNil}}, true
		}
		return []Value{Ptr{Kind: PElem, Arr: s.Arr, Off: s.Off}}, true
	case "builtin:String":
		pt := args[0].(Ptr)
		n := p.intOf(args[1]).T
		n = c.Resize(n, 64, true)
		if pt.Kind == PNil {
			return []Value{StringV{Off: c.BV(64, 0), Len: c.BV(64, 0)}}, true
		}
		return []Value{StringV{Arr: pt.Arr, Off: p.viewOff(pt), Len: n}}, true
	case "builtin:Slice":
		pt := args[0].(Ptr)
		n := c.Resize(p.intOf(args[1]).T, 64, true)
		if pt.Kind == PNil {
			return []Value{SliceV{Off: c.BV(64, 0), Len: c.BV(64, 0), Cap: c.BV(64, 0)}}, true
		}
		if pt.Kind == PCell {
			p.unsupported("unsafe.Slice over non-array memory")
		}
		return []Value{SliceV{Arr: pt.Arr, Off: p.viewOff(pt), Len: n, Cap: n}}, true
	case "builtin:Add":
		pt := args[0].(Ptr)
		n := c.Resize(p.intOf(args[1]).T, 64, true)
		if pt.Kind != PElem && pt.Kind != PView {
			p.unsupported("unsafe.Add on non-array memory")
		}
		return []Value{Ptr{Kind: PElem, Arr: pt.Arr, Off: c.Add(p.viewOff(pt), n)}}, true
	}
	return nil, false
}
