package main

// byte-sequence helpers shared by strings and []byte

import (
	"fmt"
	"go/token"
	"go/types"

	"golang.org/x/tools/go/ssa"
)

type seq struct {
	Arr *IntArrCell
	Off *Term
	Len *Term
}

func seqOfString(s StringV) seq { return seq{s.Arr, s.Off, s.Len} }
func seqOfSlice(s SliceV) seq   { return seq{s.Arr, s.Off, s.Len} }

func (p *Path) seqOf(v Value) seq {
	switch x := v.(type) {
	case StringV:
		return seqOfString(x)
	case SliceV:
		if x.AC != nil {
			p.unsupported("byte sequence over generic slice")
		}
		return seqOfSlice(x)
	}
	p.unsupported(fmt.Sprintf("byte sequence of %T", v))
	return seq{}
}

func (p *Path) seqAt(s seq, i *Term) *Term {
	if s.Arr == nil {
		return p.ctx.BV(8, 0)
	}
	return s.Arr.read(p.ctx, p.ctx.Add(s.Off, i))
}

const maxConcLen = 96

func (p *Path) concLen(t *Term, what string) int {
	return int(p.concretize(t, maxConcLen, what))
}

// seqEq is the equality of two byte sequences as a term; it avoids forking when one length is concrete.
func (p *Path) seqEq(a, b seq) *Term {
	c := p.ctx
	lenEq := c.Eq(a.Len, b.Len)
	if lenEq.IsFalse() {
		return c.False
	}
	var n int
	switch {
	case a.Len.IsConst():
		n = int(a.Len.Val)
	case b.Len.IsConst():
		n = int(b.Len.Val)
	default:
		n = p.concLen(a.Len, "sequence length for comparison")
		lenEq = c.Eq(a.Len, b.Len)
	}
	if a.Arr == b.Arr && a.Off == b.Off {
		return lenEq
	}
	r := lenEq
	for i := 0; i < n; i++ {
		ix := c.BV(64, uint64(i))
		r = c.And(r, c.Eq(p.seqAt(a, ix), p.seqAt(b, ix)))
	}
	return r
}

func (p *Path) stringEq(a, b StringV) *Term { return p.seqEq(seqOfString(a), seqOfString(b)) }

// seqCompare returns a 64-bit term in {-1,0,1}.
func (p *Path) seqCompare(a, b seq) *Term {
	c := p.ctx
	la := p.concLen(a.Len, "compare length")
	lb := p.concLen(b.Len, "compare length")
	n := la
	if lb < n {
		n = lb
	}
	neg1, zero, one := c.BV(64, ^uint64(0)), c.BV(64, 0), c.BV(64, 1)
	var res *Term
	switch {
	case la < lb:
		res = neg1
	case la > lb:
		res = one
	default:
		res = zero
	}
	for i := n - 1; i >= 0; i-- {
		ix := c.BV(64, uint64(i))
		x, y := p.seqAt(a, ix), p.seqAt(b, ix)
		res = c.Ite(c.ULT(x, y), neg1, c.Ite(c.ULT(y, x), one, res))
	}
	return res
}

func (p *Path) stringCompare(a, b StringV) *Term {
	return p.seqCompare(seqOfString(a), seqOfString(b))
}

// copySeq makes a fresh array holding the n (concrete) elements of s.
func (p *Path) copyToNew(s seq, n int, ew int) *IntArrCell {
	arr := newIntArr(n, ew)
	for i := 0; i < n; i++ {
		arr.Ov[uint64(i)] = p.seqAt(s, p.ctx.BV(64, uint64(i)))
	}
	return arr
}

func (p *Path) stringConcat(a, b StringV) Value {
	c := p.ctx
	if a.Len.IsConst() && a.Len.Val == 0 {
		return b
	}
	if b.Len.IsConst() && b.Len.Val == 0 {
		return a
	}
	la := p.concLen(a.Len, "string concat")
	lb := p.concLen(b.Len, "string concat")
	arr := newIntArr(la+lb, 8)
	for i := 0; i < la; i++ {
		arr.Ov[uint64(i)] = p.seqAt(seqOfString(a), c.BV(64, uint64(i)))
	}
	for i := 0; i < lb; i++ {
		arr.Ov[uint64(la+i)] = p.seqAt(seqOfString(b), c.BV(64, uint64(i)))
	}
	arr.RO = true
	return StringV{Arr: arr, Off: c.BV(64, 0), Len: c.BV(64, uint64(la+lb))}
}

func (p *Path) bytesFromString(s StringV) Value {
	c := p.ctx
	n := p.concLen(s.Len, "[]byte(string)")
	arr := p.copyToNew(seqOfString(s), n, 8)
	return SliceV{Arr: arr, Off: c.BV(64, 0), Len: c.BV(64, uint64(n)), Cap: c.BV(64, uint64(n))}
}

func (p *Path) stringFromBytes(s SliceV) Value {
	c := p.ctx
	if s.AC != nil {
		p.unsupported("string of generic slice")
	}
	n := p.concLen(s.Len, "string([]byte)")
	if n == 0 {
		return StringV{Off: c.BV(64, 0), Len: c.BV(64, 0)}
	}
	arr := p.copyToNew(seqOfSlice(s), n, 8)
	arr.RO = true
	return StringV{Arr: arr, Off: c.BV(64, 0), Len: c.BV(64, uint64(n))}
}

// runesFromString decodes ASCII only; non-ASCII bytes are outside the supported encoding.
func (p *Path) runesFromString(s StringV) Value {
	c := p.ctx
	n := p.concLen(s.Len, "[]rune(string)")
	arr := newIntArr(n, 32)
	for i := 0; i < n; i++ {
		b := p.seqAt(seqOfString(s), c.BV(64, uint64(i)))
		if !p.branch(c.ULT(b, c.BV(8, 0x80))) {
			p.unsupported("[]rune(string) with non-ASCII bytes")
		}
		arr.Ov[uint64(i)] = c.ZExt(b, 24)
	}
	return SliceV{Arr: arr, Off: c.BV(64, 0), Len: c.BV(64, uint64(n)), Cap: c.BV(64, uint64(n))}
}

func (p *Path) stringFromRunes(s SliceV) Value {
	c := p.ctx
	n := p.concLen(s.Len, "string([]rune)")
	arr := newIntArr(n, 8)
	for i := 0; i < n; i++ {
		r := s.Arr.read(c, c.Add(s.Off, c.BV(64, uint64(i))))
		if !p.branch(c.ULT(r, c.BV(32, 0x80))) {
			p.unsupported("string([]rune) with non-ASCII runes")
		}
		arr.Ov[uint64(i)] = c.Extract(r, 7, 0)
	}
	arr.RO = true
	return StringV{Arr: arr, Off: c.BV(64, 0), Len: c.BV(64, uint64(n))}
}

// ---------- builtins ----------

func (p *Path) callBuiltin(fv FuncV, args []Value, pos token.Pos, caller *ssa.Function) []Value {
	c := p.ctx
	if out, ok := p.unsafeBuiltin(fv.Builtin, args); ok {
		return out
	}
	switch fv.Builtin {
	case "verif:sorter-identity":
		return []Value{IntV{T: c.Resize(p.intOf(args[0]).T, 32, true)}}
	case "builtin:len":
		switch x := args[0].(type) {
		case SliceV:
			return []Value{IntV{T: x.Len}}
		case StringV:
			return []Value{IntV{T: x.Len}}
		case MapV:
			n := 0
			if x.M != nil {
				n = len(x.M.E)
			}
			return []Value{IntV{T: c.BV(64, uint64(n))}}
		case ChanV:
			n := 0
			if x.C != nil {
				n = len(x.C.Q)
			}
			return []Value{IntV{T: c.BV(64, uint64(n))}}
		case Ptr:
			if x.Kind == PView {
				return []Value{IntV{T: c.BV(64, uint64(x.N))}}
			}
			if ac, ok := x.Cell.(*ArrCell); ok {
				return []Value{IntV{T: c.BV(64, uint64(len(ac.E)))}}
			}
		case ArrV:
			return []Value{IntV{T: c.BV(64, uint64(len(x.E)))}}
		}
	case "builtin:cap":
		switch x := args[0].(type) {
		case SliceV:
			return []Value{IntV{T: x.Cap}}
		case ChanV:
			n := 0
			if x.C != nil {
				n = x.C.Cap
			}
			return []Value{IntV{T: c.BV(64, uint64(n))}}
		case Ptr:
			if x.Kind == PView {
				return []Value{IntV{T: c.BV(64, uint64(x.N))}}
			}
		}
	case "builtin:append":
		return []Value{p.appendOp(args[0], args[1], pos, caller)}
	case "builtin:copy":
		return []Value{IntV{T: p.copyOp(args[0], args[1])}}
	case "builtin:delete":
		p.mapDelete(args[0].(MapV), args[1])
		return nil
	case "builtin:close":
		ch := args[0].(ChanV)
		if ch.C != nil {
			ch.C.Closed = true
		}
		return nil
	case "builtin:print", "builtin:println":
		return nil
	case "builtin:recover":
		return []Value{IfaceV{}}
	case "builtin:ssa:wrapnilchk":
		if pt, ok := args[0].(Ptr); ok && pt.Kind == PNil {
			p.goPanic("nil receiver in wrapper", siteName(caller)+":nil-deref")
		}
		return []Value{args[0]}
	case "builtin:min", "builtin:max":
		return []Value{p.minmax(fv.Builtin == "builtin:min", args, caller)}
	case "builtin:clear":
		switch x := args[0].(type) {
		case MapV:
			if x.M != nil {
				x.M.E = nil
			}
			return nil
		}
	}
	p.unsupported("builtin " + fv.Builtin + fmt.Sprintf(" on %T", args[0]))
	return nil
}

func (p *Path) minmax(isMin bool, args []Value, caller *ssa.Function) Value {
	c := p.ctx
	// operand signedness is not available here; recover it from the caller is hard, so use the value kinds:
	// we require IntV and take signedness from p.userData set by the Call site (see invoke path). Fallback: signed.
	signed := true
	if s, ok := p.userData["minmax-signed"].(bool); ok {
		signed = s
	}
	cur := p.intOf(args[0]).T
	for _, a := range args[1:] {
		b := p.intOf(a).T
		var lt *Term
		if signed {
			lt = c.SLT(b, cur)
		} else {
			lt = c.ULT(b, cur)
		}
		if isMin {
			cur = c.Ite(lt, b, cur)
		} else {
			cur = c.Ite(lt, cur, b)
		}
	}
	return IntV{T: cur}
}

func (p *Path) appendOp(dst, src Value, pos token.Pos, caller *ssa.Function) Value {
	c := p.ctx
	d := dst.(SliceV)
	// source: slice or string
	var sLen *Term
	var sSeq seq
	var sAC *ArrCell
	var sOff *Term
	switch s := src.(type) {
	case SliceV:
		sLen, sSeq, sAC, sOff = s.Len, seqOfSlice(s), s.AC, s.Off
	case StringV:
		sLen, sSeq = s.Len, seqOfString(s)
	default:
		p.unsupported(fmt.Sprintf("append of %T", src))
	}
	if sLen.IsConst() && sLen.Val == 0 {
		return d
	}
	n := p.concLen(sLen, "append source length")
	if n == 0 {
		return d
	}
	newLen := c.Add(d.Len, c.BV(64, uint64(n)))
	generic := d.AC != nil || sAC != nil
	if generic && d.Arr != nil {
		p.unsupported("append mixing backing kinds")
	}
	fits := false
	if !d.IsNil() {
		fits = p.branch(c.ULE(newLen, d.Cap))
	}
	if generic || (d.IsNil() && sAC != nil) {
		dl := p.concLen(d.Len, "append dest length")
		doff := 0
		if d.AC != nil {
			doff = p.concLen(d.Off, "append dest offset")
		}
		so := 0
		if sAC != nil {
			so = p.concLen(sOff, "append src offset")
		}
		if fits {
			for i := 0; i < n; i++ {
				p.storeCell(d.AC.E[doff+dl+i], p.loadCell(sAC.E[so+i]))
			}
			return SliceV{AC: d.AC, Off: d.Off, Len: newLen, Cap: d.Cap}
		}
		ncap := dl + n
		if ncap < 2*dl {
			ncap = 2 * dl
		}
		var elemT types.Type
		if d.AC != nil {
			elemT = d.AC.Elem
		} else {
			elemT = sAC.Elem
		}
		e := make([]Cell, ncap)
		for i := range e {
			e[i] = p.newCell(elemT)
		}
		for i := 0; i < dl; i++ {
			p.storeCell(e[i], p.loadCell(d.AC.E[doff+i]))
		}
		for i := 0; i < n; i++ {
			p.storeCell(e[dl+i], p.loadCell(sAC.E[so+i]))
		}
		return SliceV{AC: &ArrCell{E: e, Elem: elemT}, Off: c.BV(64, 0), Len: c.BV(64, uint64(dl+n)), Cap: c.BV(64, uint64(ncap))}
	}
	// integer elements
	ew := 8
	if d.Arr != nil {
		ew = d.Arr.EW
	} else if sSeq.Arr != nil {
		ew = sSeq.Arr.EW
	} else {
		ew = p.userDataInt("append-ew", 8)
	}
	// read source first (may alias destination)
	vals := make([]*Term, n)
	for i := 0; i < n; i++ {
		if sSeq.Arr == nil {
			vals[i] = c.BV(ew, 0)
		} else {
			vals[i] = sSeq.Arr.read(c, c.Add(sSeq.Off, c.BV(64, uint64(i))))
		}
	}
	if fits {
		for i := 0; i < n; i++ {
			d.Arr.write(c, c.Add(c.Add(d.Off, d.Len), c.BV(64, uint64(i))), vals[i])
		}
		return SliceV{Arr: d.Arr, Off: d.Off, Len: newLen, Cap: d.Cap}
	}
	dl := p.concLen(d.Len, "append dest length (reallocation)")
	ncap := dl + n
	if ncap < 2*dl {
		ncap = 2 * dl
	}
	arr := newIntArr(ncap, ew)
	for i := 0; i < dl; i++ {
		arr.Ov[uint64(i)] = d.Arr.read(c, c.Add(d.Off, c.BV(64, uint64(i))))
	}
	for i := 0; i < n; i++ {
		arr.Ov[uint64(dl+i)] = vals[i]
	}
	return SliceV{Arr: arr, Off: c.BV(64, 0), Len: c.BV(64, uint64(dl+n)), Cap: c.BV(64, uint64(ncap))}
}

func (p *Path) userDataInt(k string, def int) int {
	if v, ok := p.userData[k].(int); ok {
		return v
	}
	return def
}

func (p *Path) copyOp(dst, src Value) *Term {
	c := p.ctx
	d := dst.(SliceV)
	var sLen *Term
	switch s := src.(type) {
	case SliceV:
		sLen = s.Len
	case StringV:
		sLen = s.Len
	}
	var nT *Term
	if d.Len.IsConst() && sLen.IsConst() {
		if d.Len.Val < sLen.Val {
			nT = d.Len
		} else {
			nT = sLen
		}
	} else {
		nT = c.Ite(c.ULT(d.Len, sLen), d.Len, sLen)
	}
	n := p.concLen(nT, "copy length")
	if n == 0 {
		return c.BV(64, 0)
	}
	if d.AC != nil {
		s := src.(SliceV)
		doff := p.concLen(d.Off, "copy dst offset")
		soff := p.concLen(s.Off, "copy src offset")
		tmp := make([]Value, n)
		for i := 0; i < n; i++ {
			tmp[i] = p.loadCell(s.AC.E[soff+i])
		}
		for i := 0; i < n; i++ {
			p.storeCell(d.AC.E[doff+i], tmp[i])
		}
		return c.BV(64, uint64(n))
	}
	ss := p.seqOf(src)
	vals := make([]*Term, n)
	for i := 0; i < n; i++ {
		vals[i] = ss.Arr.read(c, c.Add(ss.Off, c.BV(64, uint64(i))))
	}
	for i := 0; i < n; i++ {
		d.Arr.write(c, c.Add(d.Off, c.BV(64, uint64(i))), vals[i])
	}
	return c.BV(64, uint64(n))
}
