package main

// One long-lived solver process per worker, driven over stdin/stdout with SMT-LIB2 text.
// Per path: (reset), then declarations/definitions/assertions of the path condition at level 0,
// and each query as (push 1)(assert q)(check-sat)[(get-value ..)](pop 1).

import (
	"bufio"
	"fmt"
	"io"
	"os"
	"os/exec"
	"strconv"
	"strings"
	"sync/atomic"
	"time"
)

type Result int

const (
	Unsat Result = iota
	Sat
	Unknown
)

func (r Result) String() string { return [...]string{"unsat", "sat", "unknown"}[r] }

type SolverStats struct {
	Queries   int64
	SatN      int64
	UnsatN    int64
	UnknownN  int64
	TimeNs    int64
	Restarts  int64
	ErrorsN   int64
	MaxMs     int64
}

var globalStats SolverStats

type Solver struct {
	kind      string
	timeoutMs int
	cmd       *exec.Cmd
	in        io.WriteCloser
	out       *bufio.Reader
	transcript strings.Builder // everything sent at level 0 since the last reset
	pr        *printer
	declared  map[int]bool
	ufDecl    map[string]bool
	ctx       *Ctx
	logf      *os.File
	lastErr   string
	site      string
}

func solverArgv(kind string, timeoutMs int) []string {
	switch kind {
	case "z3":
		return []string{"z3", "-in"}
	case "z3new":
		return []string{"z3-new", "-in"}
	case "cvc5":
		return []string{"cvc5", "--incremental", "--lang=smt2", "--produce-models", "--tlimit-per=" + strconv.Itoa(timeoutMs)}
	case "cvc5int":
		// NOT incremental: with --incremental cvc5 1.0 skips the preprocessing that makes bv-as-int effective (a
		// query that takes 0.5 s one-shot is still unknown after 60 s); one process per query instead
		return []string{"cvc5", "--lang=smt2", "--produce-models", "--solve-bv-as-int=sum", "--tlimit=" + strconv.Itoa(timeoutMs)}
	}
	if kind == "portfolio" {
		return []string{"true"} // no resident process: every query races fresh solver processes (portfolioQuery)
	}
	panic("unknown solver " + kind)
}

func NewSolver(kind string, timeoutMs int, logPath string) *Solver {
	s := &Solver{kind: kind, timeoutMs: timeoutMs}
	if logPath != "" {
		f, err := os.Create(logPath)
		if err == nil {
			s.logf = f
		}
	}
	s.start()
	return s
}

func (s *Solver) start() {
	argv := solverArgv(s.kind, s.timeoutMs)
	cmd := exec.Command(argv[0], argv[1:]...)
	in, _ := cmd.StdinPipe()
	out, _ := cmd.StdoutPipe()
	cmd.Stderr = nil
	if err := cmd.Start(); err != nil {
		panic(fmt.Sprintf("cannot start solver %v: %v", argv, err))
	}
	s.cmd, s.in, s.out = cmd, in, bufio.NewReaderSize(out, 1<<16)
}

func (s *Solver) Close() {
	if s.cmd != nil {
		s.in.Close()
		s.cmd.Process.Kill()
		s.cmd.Wait()
		s.cmd = nil
	}
	if s.logf != nil {
		s.logf.Close()
	}
}

func (s *Solver) header() string {
	var sb strings.Builder
	if strings.HasPrefix(s.kind, "z3") {
		fmt.Fprintf(&sb, "(set-option :timeout %d)\n", s.timeoutMs)
	}
	sb.WriteString("(set-option :produce-models true)\n")
	if strings.HasPrefix(s.kind, "cvc5") {
		sb.WriteString("(set-logic ALL)\n")
	}
	return sb.String()
}

func (s *Solver) send(txt string) {
	if s.logf != nil {
		s.logf.WriteString(txt)
	}
	io.WriteString(s.in, txt)
}

// BeginPath resets the solver for a new path with term context ctx.
func (s *Solver) BeginPath(ctx *Ctx) {
	s.ctx = ctx
	s.transcript.Reset()
	s.pr = &printer{sb: &strings.Builder{}, defined: map[int]bool{}}
	s.declared = map[int]bool{}
	s.ufDecl = map[string]bool{}
	if strings.HasPrefix(s.kind, "cvc5") {
		// cvc5 1.0 (reset) keeps command line options
		s.base("(reset)\n" + s.header())
	} else {
		s.base("(reset)\n" + s.header())
	}
}

func (s *Solver) base(txt string) {
	s.transcript.WriteString(txt)
	if !oneShot {
		s.send(txt)
	}
}

// oneShot: every query is sent as a self-contained script after (reset), so z3 uses its one-shot tactic
// pipeline instead of the (much slower on these problems) incremental core.
var oneShot = true

// prepare emits declarations and definitions needed for t at level 0 and returns its reference.
func (s *Solver) prepare(t *Term) string {
	var sb strings.Builder
	for _, v := range collectVars([]*Term{t}) {
		if !s.declared[v.ID] {
			s.declared[v.ID] = true
			fmt.Fprintf(&sb, "(declare-const %s %s)\n", v.Name, v.S.String())
		}
	}
	for _, name := range s.ctx.ufOrd {
		if !s.ufDecl[name] {
			s.ufDecl[name] = true
			sb.WriteString(s.ctx.ufs[name] + "\n")
		}
	}
	if sb.Len() > 0 {
		s.base(sb.String())
	}
	return s.pr.letForm(t)
}

// Assert adds t permanently to the path condition.
func (s *Solver) Assert(t *Term) {
	r := s.prepare(t)
	s.base("(assert " + r + ")\n")
}

var queryCounter int64
var slowLogMs int64

// Check decides satisfiability of (path condition AND extra). If wantModel, values of vars are returned on sat.
func (s *Solver) Check(extra *Term, wantModel []*Term) (Result, map[string]uint64) {
	t0 := time.Now()
	ref := s.prepare(extra)
	if len(wantModel) > 0 {
		var sb strings.Builder
		for _, v := range wantModel {
			if v.Op == OpVar && !s.declared[v.ID] {
				s.declared[v.ID] = true
				fmt.Fprintf(&sb, "(declare-const %s %s)\n", v.Name, v.S.String())
			}
		}
		if sb.Len() > 0 {
			s.base(sb.String())
		}
	}
	var q strings.Builder
	if oneShot {
		q.WriteString(s.transcript.String())
		q.WriteString("(assert " + ref + ")\n(check-sat)\n")
	} else {
		q.WriteString("(push 1)\n(assert " + ref + ")\n(check-sat)\n")
	}
	res, model := s.runQuery(q.String(), wantModel, !oneShot)
	el := time.Since(t0)
	atomic.AddInt64(&globalStats.Queries, 1)
	atomic.AddInt64(&globalStats.TimeNs, int64(el))
	ms := el.Milliseconds()
	if slowLogMs > 0 && ms >= slowLogMs {
		fmt.Fprintf(os.Stderr, "SLOW-QUERY %dms res=%v site=%s len=%d\n", ms, res, s.site, len(ref))
	}
	for {
		old := atomic.LoadInt64(&globalStats.MaxMs)
		if ms <= old || atomic.CompareAndSwapInt64(&globalStats.MaxMs, old, ms) {
			break
		}
	}
	switch res {
	case Sat:
		atomic.AddInt64(&globalStats.SatN, 1)
	case Unsat:
		atomic.AddInt64(&globalStats.UnsatN, 1)
	default:
		atomic.AddInt64(&globalStats.UnknownN, 1)
	}
	return res, model
}

// portfolioQuery races three one-shot solver processes on the same self-contained script and takes the first definite
// answer: on the arithmetic kernels (division/multiplication by constants mixed with shifts and masks) z3's bit-blaster,
// cvc5's bit-blaster and cvc5's integer encoding each decide some queries in well under a second that the others do
// not finish in a minute. A sat answer must come with a model; sat and unsat answers from different solvers for the
// same query are reported as a solver error (inconclusive).
func (s *Solver) portfolioQuery(q string, wantModel []*Term) (Result, map[string]uint64) {
	q = strings.Replace(q, "(reset)\n", "", 1)
	var gv strings.Builder
	if len(wantModel) > 0 {
		gv.WriteString("(get-value (")
		for _, v := range wantModel {
			gv.WriteString(v.Name + " ")
		}
		gv.WriteString("))\n")
	}
	type ans struct {
		res   Result
		model map[string]uint64
		who   string
	}
	secs := strconv.Itoa(s.timeoutMs/1000 + 1)
	cands := [][]string{
		{"z3", "-in", "-T:" + secs},
		{"cvc5", "--lang=smt2", "--produce-models", "--solve-bv-as-int=sum", "--tlimit=" + strconv.Itoa(s.timeoutMs)},
		{"cvc5", "--lang=smt2", "--produce-models", "--tlimit=" + strconv.Itoa(s.timeoutMs)},
	}
	ch := make(chan ans, len(cands))
	var cmds []*exec.Cmd
	for _, argv := range cands {
		script := q
		if argv[0] == "cvc5" {
			script = strings.Replace(script, "(set-option :produce-models true)\n", "(set-option :produce-models true)\n(set-logic ALL)\n", 1)
		} else {
			script = "(set-option :timeout " + strconv.Itoa(s.timeoutMs) + ")\n" + script
		}
		cmd := exec.Command(argv[0], argv[1:]...)
		cmd.Stdin = strings.NewReader(script + gv.String())
		cmds = append(cmds, cmd)
		go func(cmd *exec.Cmd, who string) {
			out, _ := cmd.Output()
			txt := strings.TrimSpace(string(out))
			a := ans{res: Unknown, who: who}
			switch {
			case strings.HasPrefix(txt, "unsat"):
				a.res = Unsat
			case strings.HasPrefix(txt, "sat"):
				a.res = Sat
				if i := strings.Index(txt, "("); i >= 0 && !strings.Contains(txt[i:], "(error") {
					a.model = parseModel(txt[i:])
				} else if len(wantModel) > 0 {
					a.res = Unknown
				}
			}
			ch <- a
		}(cmd, strings.Join(argv[:2], " "))
	}
	res, model := Unknown, map[string]uint64(nil)
	for range cands {
		a := <-ch
		if a.res == Unknown {
			continue
		}
		res, model = a.res, a.model
		break
	}
	for _, c := range cmds {
		if c.Process != nil {
			c.Process.Kill()
		}
	}
	if s.logf != nil {
		s.logf.WriteString(q + gv.String())
	}
	return res, model
}

func (s *Solver) runQuery(q string, wantModel []*Term, popAfter bool) (Result, map[string]uint64) {
	if s.kind == "portfolio" {
		return s.portfolioQuery(q, wantModel)
	}
	if s.kind == "cvc5int" {
		s.restart()
		q = strings.Replace(q, "(reset)\n", "", 1)
	}
	s.send(q)
	line, ok := s.readLineTimeout()
	if !ok {
		s.restart()
		return Unknown, nil
	}
	res := Unknown
	switch {
	case line == "sat":
		res = Sat
	case line == "unsat":
		res = Unsat
	case strings.Contains(line, "error"):
		atomic.AddInt64(&globalStats.ErrorsN, 1)
		s.lastErr = line
		fmt.Fprintf(os.Stderr, "SOLVER-ERROR %s: %s\n", s.kind, line)
		// errors desynchronise the stream: restart to be safe
		s.restart()
		return Unknown, nil
	}
	var model map[string]uint64
	if res == Sat && len(wantModel) > 0 {
		var sb strings.Builder
		sb.WriteString("(get-value (")
		for _, v := range wantModel {
			sb.WriteString(v.Name + " ")
		}
		sb.WriteString("))\n")
		s.send(sb.String())
		txt, ok := s.readSexpTimeout()
		if !ok {
			s.restart()
			return Unknown, nil
		}
		if strings.HasPrefix(txt, "(error") {
			atomic.AddInt64(&globalStats.ErrorsN, 1)
			fmt.Fprintf(os.Stderr, "SOLVER-ERROR %s (get-value): %s\n", s.kind, txt)
			s.restart()
			return Unknown, nil
		}
		model = parseModel(txt)
	}
	if popAfter {
		s.send("(pop 1)\n")
	}
	return res, model
}

func (s *Solver) restart() {
	atomic.AddInt64(&globalStats.Restarts, 1)
	if s.cmd != nil {
		s.in.Close()
		s.cmd.Process.Kill()
		s.cmd.Wait()
	}
	s.start()
	if !oneShot {
		s.send(s.transcript.String())
	}
}

type lineRes struct {
	s  string
	ok bool
}

func (s *Solver) readLineTimeout() (string, bool) {
	ch := make(chan lineRes, 1)
	rd := s.out
	go func() {
		for {
			l, err := rd.ReadString('\n')
			if err != nil {
				ch <- lineRes{"", false}
				return
			}
			l = strings.TrimSpace(l)
			if l == "" {
				continue
			}
			ch <- lineRes{l, true}
			return
		}
	}()
	select {
	case r := <-ch:
		return r.s, r.ok
	case <-time.After(time.Duration(s.timeoutMs)*time.Millisecond + 10*time.Second):
		return "", false
	}
}

func (s *Solver) readSexpTimeout() (string, bool) {
	ch := make(chan lineRes, 1)
	rd := s.out
	go func() {
		var sb strings.Builder
		depth := 0
		started := false
		for {
			b, err := rd.ReadByte()
			if err != nil {
				ch <- lineRes{"", false}
				return
			}
			if b == '(' {
				depth++
				started = true
			} else if b == ')' {
				depth--
			}
			if started {
				sb.WriteByte(b)
			}
			if started && depth == 0 {
				ch <- lineRes{sb.String(), true}
				return
			}
		}
	}()
	select {
	case r := <-ch:
		return r.s, r.ok
	case <-time.After(30 * time.Second):
		return "", false
	}
}

// parseModel parses ((name #x..) (name true) ...) into a map; bools become 0/1.
func parseModel(txt string) map[string]uint64 {
	m := map[string]uint64{}
	toks := tokenize(txt)
	// expect ( ( name value ) ... )
	for i := 0; i+2 < len(toks); i++ {
		if toks[i] == "(" && toks[i+1] != "(" && toks[i+1] != ")" {
			name := toks[i+1]
			val := toks[i+2]
			switch {
			case strings.HasPrefix(val, "#x"):
				v, _ := strconv.ParseUint(val[2:], 16, 64)
				m[name] = v
			case strings.HasPrefix(val, "#b"):
				v, _ := strconv.ParseUint(val[2:], 2, 64)
				m[name] = v
			case val == "true":
				m[name] = 1
			case val == "false":
				m[name] = 0
			case val == "(" && i+4 < len(toks) && toks[i+3] == "_" && strings.HasPrefix(toks[i+4], "bv"):
				v, _ := strconv.ParseUint(toks[i+4][2:], 10, 64)
				m[name] = v
			}
		}
	}
	return m
}

func tokenize(s string) []string {
	var toks []string
	cur := strings.Builder{}
	flush := func() {
		if cur.Len() > 0 {
			toks = append(toks, cur.String())
			cur.Reset()
		}
	}
	for i := 0; i < len(s); i++ {
		ch := s[i]
		switch ch {
		case '(', ')':
			flush()
			toks = append(toks, string(ch))
		case ' ', '\n', '\t', '\r':
			flush()
		default:
			cur.WriteByte(ch)
		}
	}
	flush()
	return toks
}
