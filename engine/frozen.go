package main

// Package initialisers run once per engine in a dedicated concrete "init path"; the resulting cells form a frozen
// heap that every exploration path clones lazily (per global, with a memo that preserves pointer identity).

import (
	"fmt"
	"go/types"
	"sync"

	"golang.org/x/tools/go/ssa"
)

type frozenHeap struct {
	mu   sync.RWMutex
	path *Path
}

func (e *Engine) newInitPath() *Path {
	hr := newHarnessResult("<init>")
	return &Path{eng: e, ctx: NewCtx(), res: hr, harness: "<init>", isInitPath: true, tolerant: 1,
		globals: map[*ssa.Global]Cell{}, initDone: map[*ssa.Package]bool{}, strConsts: map[string]*IntArrCell{},
		unwind: 1 << 30, userData: map[string]interface{}{}}
}

// frozenGlobal returns the initialised (frozen) cell of g, running the package initialiser on first use.
func (e *Engine) frozenGlobal(g *ssa.Global) Cell {
	fh := &e.frozen
	fh.mu.RLock()
	if fh.path != nil {
		if c, ok := fh.path.globals[g]; ok && (g.Pkg == nil || fh.path.initDone[g.Pkg]) {
			fh.mu.RUnlock()
			return c
		}
	}
	fh.mu.RUnlock()
	fh.mu.Lock()
	defer fh.mu.Unlock()
	if fh.path == nil {
		fh.path = e.newInitPath()
	}
	var c Cell
	func() {
		defer func() {
			if r := recover(); r != nil {
				// a failure outside any tolerant instruction: leave the global at its zero value / poison
				fmt.Fprintf(logw, "init of %v failed: %v\n", g, r)
			}
		}()
		fh.path.steps = 0
		c = fh.path.globalCellInit(g)
	}()
	if c == nil {
		c = fh.path.newCell(g.Type().(*types.Pointer).Elem())
		fh.path.globals[g] = c
	}
	return c
}

// globalCellInit is globalCell for the init path itself.
func (p *Path) globalCellInit(g *ssa.Global) Cell {
	if g.Pkg != nil && !p.initDone[g.Pkg] {
		p.runInit(g.Pkg)
	}
	if c, ok := p.globals[g]; ok {
		return c
	}
	c := p.newCell(g.Type().(*types.Pointer).Elem())
	p.globals[g] = c
	return c
}

// ---- cloning frozen cells into a path ----

func (p *Path) cloneCell(c Cell) Cell {
	if c == nil {
		return nil
	}
	if m, ok := p.cloneMemo[c]; ok {
		return m.(Cell)
	}
	switch c := c.(type) {
	case *ScalarCell:
		n := &ScalarCell{}
		p.cloneMemo[c] = n
		n.V = p.cloneValue(c.V)
		return n
	case *StructCell:
		n := &StructCell{F: make([]Cell, len(c.F))}
		p.cloneMemo[c] = n
		for i, f := range c.F {
			n.F[i] = p.cloneCell(f)
		}
		return n
	case *ArrCell:
		n := &ArrCell{E: make([]Cell, len(c.E)), Elem: c.Elem}
		p.cloneMemo[c] = n
		for i, f := range c.E {
			n.E[i] = p.cloneCell(f)
		}
		return n
	case *IntArrCell:
		return p.cloneIntArr(c)
	}
	panic(fmt.Sprintf("cloneCell: %T", c))
}

func (p *Path) cloneIntArr(c *IntArrCell) *IntArrCell {
	if c == nil {
		return nil
	}
	if c.RO {
		return c // immutable string data is shared
	}
	if m, ok := p.cloneMemo[c]; ok {
		return m.(*IntArrCell)
	}
	if c.Base != nil {
		p.unsupported("initialised global holds an array with a symbolic store")
	}
	n := &IntArrCell{N: c.N, EW: c.EW, Ov: make(map[uint64]*Term, len(c.Ov)), Label: c.Label}
	p.cloneMemo[c] = n
	for k, v := range c.Ov {
		if !v.IsConst() {
			p.unsupported("initialised global holds a non-constant term")
		}
		n.Ov[k] = v
	}
	return n
}

func (p *Path) cloneTerm(t *Term) *Term {
	if t != nil && !t.IsConst() {
		p.unsupported("initialised global holds a non-constant term")
	}
	return t
}

func (p *Path) cloneValue(v Value) Value {
	switch x := v.(type) {
	case nil:
		return nil
	case IntV:
		return IntV{T: p.cloneTerm(x.T), Prov: p.cloneIntArr(x.Prov)}
	case BoolV:
		return BoolV{p.cloneTerm(x.T)}
	case FloatV:
		return FloatV{p.cloneTerm(x.T)}
	case StructV:
		f := make([]Value, len(x.F))
		for i := range f {
			f[i] = p.cloneValue(x.F[i])
		}
		return StructV{f}
	case ArrV:
		f := make([]Value, len(x.E))
		for i := range f {
			f[i] = p.cloneValue(x.E[i])
		}
		return ArrV{f}
	case TupleV:
		f := make([]Value, len(x.E))
		for i := range f {
			f[i] = p.cloneValue(x.E[i])
		}
		return TupleV{f}
	case Ptr:
		out := Ptr{Kind: x.Kind, N: x.N, Off: p.cloneTerm(x.Off)}
		if x.Cell != nil {
			out.Cell = p.cloneCell(x.Cell)
		}
		out.Arr = p.cloneIntArr(x.Arr)
		return out
	case SliceV:
		out := SliceV{Off: p.cloneTerm(x.Off), Len: p.cloneTerm(x.Len), Cap: p.cloneTerm(x.Cap)}
		out.Arr = p.cloneIntArr(x.Arr)
		if x.AC != nil {
			out.AC = p.cloneCell(x.AC).(*ArrCell)
		}
		return out
	case StringV:
		return StringV{Arr: p.cloneIntArr(x.Arr), Off: p.cloneTerm(x.Off), Len: p.cloneTerm(x.Len)}
	case IfaceV:
		return IfaceV{T: x.T, V: p.cloneValue(x.V)}
	case FuncV:
		if len(x.Bind) == 0 {
			return x
		}
		b := make([]Value, len(x.Bind))
		for i := range b {
			b[i] = p.cloneValue(x.Bind[i])
		}
		return FuncV{Fn: x.Fn, Bind: b, Builtin: x.Builtin}
	case MapV:
		if x.M == nil {
			return x
		}
		if m, ok := p.cloneMemo[x.M]; ok {
			return MapV{m.(*MapObj)}
		}
		n := &MapObj{KeyT: x.M.KeyT, ValT: x.M.ValT, E: make([]MapEntry, len(x.M.E))}
		p.cloneMemo[x.M] = n
		for i, e := range x.M.E {
			n.E[i] = MapEntry{p.cloneValue(e.K), p.cloneValue(e.V)}
		}
		return MapV{n}
	case ChanV:
		if x.C == nil {
			return x
		}
		if m, ok := p.cloneMemo[x.C]; ok {
			return ChanV{m.(*ChanObj)}
		}
		n := &ChanObj{Cap: x.C.Cap, Closed: x.C.Closed}
		p.cloneMemo[x.C] = n
		for _, e := range x.C.Q {
			n.Q = append(n.Q, p.cloneValue(e))
		}
		return ChanV{n}
	case PoisonV, *RegexpV:
		return x
	}
	p.unsupported(fmt.Sprintf("initialised global holds a value of kind %T", v))
	return nil
}
