package main

import (
	"fmt"
	"go/types"

	"golang.org/x/tools/go/ssa"
)

// ---------- values (immutable) ----------

type Value interface{}

type IntV struct {
	T    *Term
	Prov *IntArrCell // provenance when this is a uintptr derived from a pointer (T is then the element offset)
}
type BoolV struct{ T *Term }
type FloatV struct{ T *Term } // IEEE bits, width 32 or 64
type StructV struct{ F []Value }
type ArrV struct{ E []Value }
type TupleV struct{ E []Value }

type PtrKind uint8

const (
	PNil PtrKind = iota
	PCell
	PElem
	PView
)

type Ptr struct {
	Kind PtrKind
	Cell Cell        // PCell
	Arr  *IntArrCell // PElem, PView
	Off  *Term       // PElem index, PView start (BV64)
	N    int         // PView length
}

type SliceV struct {
	Arr  *IntArrCell // int element backing, or
	AC   *ArrCell    // generic backing
	Off  *Term
	Len  *Term
	Cap  *Term
}

func (s SliceV) IsNil() bool { return s.Arr == nil && s.AC == nil }

type StringV struct {
	Arr *IntArrCell
	Off *Term
	Len *Term
}

type IfaceV struct {
	T types.Type // nil => nil interface
	V Value
}

type FuncV struct {
	Fn      *ssa.Function
	Bind    []Value
	Builtin string // name of engine-provided function when Fn == nil
}

type MapEntry struct {
	K Value
	V Value
}
type MapObj struct {
	E    []MapEntry
	KeyT types.Type
	ValT types.Type
}
type MapV struct{ M *MapObj }

type ChanObj struct {
	Q   []Value
	Cap int
	Closed bool
}
type ChanV struct{ C *ChanObj }

type PoisonV struct{ Why string }

// iterator for range over map / string
type IterV struct {
	Entries []MapEntry
	Str     StringV
	IsStr   bool
	Pos     *int // mutable cursor (iterator objects are single-use)
}

// ---------- memory cells (mutable) ----------

type Cell interface{}

type ScalarCell struct{ V Value }
type StructCell struct{ F []Cell }
type ArrCell struct {
	E    []Cell
	Elem types.Type
}

// IntArrCell is a byte/integer array with sparse concrete overlay over an optional SMT array base.
type IntArrCell struct {
	N      int // -1: unknown / not needed
	EW     int
	Base   *Term // nil => all zero
	Ov     map[uint64]*Term
	RO     bool
	Label  string
}

func newIntArr(n, ew int) *IntArrCell { return &IntArrCell{N: n, EW: ew, Ov: map[uint64]*Term{}} }

func (a *IntArrCell) read(c *Ctx, idx *Term) *Term {
	if idx.IsConst() {
		if v, ok := a.Ov[idx.Val]; ok {
			return v
		}
		if a.Base == nil {
			return c.BV(a.EW, 0)
		}
		return c.Select(a.Base, idx)
	}
	if a.Base == nil && len(a.Ov) > 8 {
		if t := a.constTableLookup(c, idx); t != nil {
			return t
		}
	}
	if a.Base == nil && len(a.Ov) <= 48 {
		// ite chain over written entries
		res := c.BV(a.EW, 0)
		keys := sortedKeys(a.Ov)
		for _, k := range keys {
			res = c.Ite(c.Eq(idx, c.BV(64, k)), a.Ov[k], res)
		}
		return res
	}
	return c.Select(a.materialize(c), idx)
}

func sortedKeys(m map[uint64]*Term) []uint64 {
	keys := make([]uint64, 0, len(m))
	for k := range m {
		keys = append(keys, k)
	}
	// insertion sort is fine for small, use sort for large
	if len(keys) > 1 {
		sortU64(keys)
	}
	return keys
}

func sortU64(a []uint64) {
	// simple quicksort via stdlib-free implementation to keep imports small
	if len(a) < 2 {
		return
	}
	p := a[len(a)/2]
	i, j := 0, len(a)-1
	for i <= j {
		for a[i] < p {
			i++
		}
		for a[j] > p {
			j--
		}
		if i <= j {
			a[i], a[j] = a[j], a[i]
			i++
			j--
		}
	}
	sortU64(a[:j+1])
	sortU64(a[i:])
}

func (a *IntArrCell) materialize(c *Ctx) *Term {
	base := a.Base
	if base == nil {
		base = c.ConstArr(a.EW, c.BV(a.EW, 0))
	}
	for _, k := range sortedKeys(a.Ov) {
		base = c.Store(base, c.BV(64, k), a.Ov[k])
	}
	a.Base = base
	a.Ov = map[uint64]*Term{}
	return base
}

func (a *IntArrCell) write(c *Ctx, idx, v *Term) {
	if v.S.W != a.EW {
		panic(fmt.Sprintf("IntArrCell.write width %d into %d", v.S.W, a.EW))
	}
	if idx.IsConst() {
		a.Ov[idx.Val] = v
		return
	}
	base := a.materialize(c)
	a.Base = c.Store(base, idx, v)
}

// ---------- type helpers ----------

func intInfo(t types.Type) (w int, signed bool, ok bool) {
	b, isB := t.Underlying().(*types.Basic)
	if !isB {
		return 0, false, false
	}
	switch b.Kind() {
	case types.Int8:
		return 8, true, true
	case types.Int16:
		return 16, true, true
	case types.Int32:
		return 32, true, true
	case types.Int64, types.Int:
		return 64, true, true
	case types.UntypedInt, types.UntypedRune:
		return 64, true, true
	case types.Uint8:
		return 8, false, true
	case types.Uint16:
		return 16, false, true
	case types.Uint32:
		return 32, false, true
	case types.Uint64, types.Uint, types.Uintptr:
		return 64, false, true
	}
	return 0, false, false
}

func floatWidth(t types.Type) (int, bool) {
	b, isB := t.Underlying().(*types.Basic)
	if !isB {
		return 0, false
	}
	switch b.Kind() {
	case types.Float32:
		return 32, true
	case types.Float64, types.UntypedFloat:
		return 64, true
	}
	return 0, false
}

func isBool(t types.Type) bool {
	b, ok := t.Underlying().(*types.Basic)
	return ok && (b.Kind() == types.Bool || b.Kind() == types.UntypedBool)
}

func isString(t types.Type) bool {
	b, ok := t.Underlying().(*types.Basic)
	return ok && (b.Kind() == types.String || b.Kind() == types.UntypedString)
}

func isUnsafePointer(t types.Type) bool {
	b, ok := t.Underlying().(*types.Basic)
	return ok && b.Kind() == types.UnsafePointer
}

// intElem reports whether arrays of elem are represented as IntArrCell.
func intElem(elem types.Type) (int, bool) {
	w, _, ok := intInfo(elem)
	return w, ok
}

func (p *Path) zeroValue(t types.Type) Value {
	switch u := t.Underlying().(type) {
	case *types.Basic:
		if w, _, ok := intInfo(t); ok {
			return IntV{T: p.ctx.BV(w, 0)}
		}
		if isBool(t) {
			return BoolV{p.ctx.False}
		}
		if isString(t) {
			return StringV{Off: p.ctx.BV(64, 0), Len: p.ctx.BV(64, 0)}
		}
		if w, ok := floatWidth(t); ok {
			return FloatV{p.ctx.BV(w, 0)}
		}
		if u.Kind() == types.UnsafePointer {
			return Ptr{Kind: PNil}
		}
		if u.Kind() == types.UntypedNil {
			return Ptr{Kind: PNil}
		}
		return PoisonV{"zero of basic " + u.String()}
	case *types.Pointer:
		return Ptr{Kind: PNil}
	case *types.Slice:
		z := p.ctx.BV(64, 0)
		return SliceV{Off: z, Len: z, Cap: z}
	case *types.Interface:
		return IfaceV{}
	case *types.Signature:
		return FuncV{}
	case *types.Map:
		return MapV{}
	case *types.Chan:
		return ChanV{}
	case *types.Struct:
		f := make([]Value, u.NumFields())
		for i := range f {
			f[i] = p.zeroValue(u.Field(i).Type())
		}
		return StructV{f}
	case *types.Array:
		n := int(u.Len())
		if n > 1<<16 {
			return PoisonV{"huge array value"}
		}
		e := make([]Value, n)
		z := p.zeroValue(u.Elem())
		for i := range e {
			e[i] = z
		}
		return ArrV{e}
	case *types.Tuple:
		e := make([]Value, u.Len())
		for i := range e {
			e[i] = p.zeroValue(u.At(i).Type())
		}
		return TupleV{e}
	}
	return PoisonV{"zero of " + t.String()}
}

func (p *Path) newCell(t types.Type) Cell {
	switch u := t.Underlying().(type) {
	case *types.Struct:
		f := make([]Cell, u.NumFields())
		for i := range f {
			f[i] = p.newCell(u.Field(i).Type())
		}
		return &StructCell{f}
	case *types.Array:
		n := int(u.Len())
		if w, ok := intElem(u.Elem()); ok {
			return newIntArr(n, w)
		}
		if n > 1<<14 {
			p.unsupported("huge non-integer array " + t.String())
		}
		e := make([]Cell, n)
		for i := range e {
			e[i] = p.newCell(u.Elem())
		}
		return &ArrCell{E: e, Elem: u.Elem()}
	}
	return &ScalarCell{p.zeroValue(t)}
}

func ptrToCell(c Cell) Ptr {
	if a, ok := c.(*IntArrCell); ok {
		return Ptr{Kind: PView, Arr: a, Off: nil, N: a.N}
	}
	return Ptr{Kind: PCell, Cell: c}
}

func (p *Path) viewOff(pt Ptr) *Term {
	if pt.Off == nil {
		return p.ctx.BV(64, 0)
	}
	return pt.Off
}

// loadCell snapshots a cell into an immutable value.
func (p *Path) loadCell(c Cell) Value {
	switch c := c.(type) {
	case *ScalarCell:
		return c.V
	case *StructCell:
		f := make([]Value, len(c.F))
		for i, fc := range c.F {
			f[i] = p.loadCell(fc)
		}
		return StructV{f}
	case *ArrCell:
		e := make([]Value, len(c.E))
		for i, ec := range c.E {
			e[i] = p.loadCell(ec)
		}
		return ArrV{e}
	case *IntArrCell:
		return p.loadView(c, p.ctx.BV(64, 0), c.N)
	}
	panic(fmt.Sprintf("loadCell: %T", c))
}

func (p *Path) loadView(a *IntArrCell, off *Term, n int) Value {
	if n < 0 || n > 1<<16 {
		p.unsupported("load of array value with unknown/huge length")
	}
	e := make([]Value, n)
	for i := 0; i < n; i++ {
		e[i] = IntV{T: a.read(p.ctx, p.ctx.Add(off, p.ctx.BV(64, uint64(i))))}
	}
	return ArrV{e}
}

func (p *Path) storeCell(c Cell, v Value) {
	if pv, ok := v.(PoisonV); ok {
		if sc, ok := c.(*ScalarCell); ok {
			sc.V = pv
			return
		}
		p.unsupported("store of poison into aggregate: " + pv.Why)
	}
	switch c := c.(type) {
	case *ScalarCell:
		c.V = v
	case *StructCell:
		sv, ok := v.(StructV)
		if !ok {
			panic(fmt.Sprintf("storeCell struct: got %T", v))
		}
		for i, fc := range c.F {
			p.storeCell(fc, sv.F[i])
		}
	case *ArrCell:
		av := v.(ArrV)
		for i, ec := range c.E {
			p.storeCell(ec, av.E[i])
		}
	case *IntArrCell:
		av := v.(ArrV)
		for i, e := range av.E {
			c.write(p.ctx, p.ctx.BV(64, uint64(i)), e.(IntV).T)
		}
	default:
		panic(fmt.Sprintf("storeCell: %T", c))
	}
}

func (p *Path) load(pt Ptr, site string) Value {
	switch pt.Kind {
	case PNil:
		p.goPanic("nil pointer dereference", site)
	case PCell:
		return p.loadCell(pt.Cell)
	case PElem:
		return IntV{T: pt.Arr.read(p.ctx, pt.Off)}
	case PView:
		return p.loadView(pt.Arr, p.viewOff(pt), pt.N)
	}
	panic("load: bad ptr")
}

func (p *Path) store(pt Ptr, v Value, site string) {
	switch pt.Kind {
	case PNil:
		p.goPanic("nil pointer dereference (store)", site)
	case PCell:
		p.storeCell(pt.Cell, v)
	case PElem:
		iv, ok := v.(IntV)
		if !ok {
			p.unsupported(fmt.Sprintf("store of %T through element pointer", v))
		}
		if pt.Arr.RO {
			p.unsupported("write to read-only (string) memory")
		}
		pt.Arr.write(p.ctx, pt.Off, iv.T)
	case PView:
		av, ok := v.(ArrV)
		if !ok {
			p.unsupported(fmt.Sprintf("store of %T through array view", v))
		}
		off := p.viewOff(pt)
		for i, e := range av.E {
			pt.Arr.write(p.ctx, p.ctx.Add(off, p.ctx.BV(64, uint64(i))), e.(IntV).T)
		}
	}
}

// valEq builds the equality condition of two values of the same static type.
func (p *Path) valEq(a, b Value) *Term {
	c := p.ctx
	switch x := a.(type) {
	case IntV:
		y, ok := b.(IntV)
		if !ok {
			break
		}
		return c.Eq(x.T, y.T)
	case BoolV:
		return c.Eq(x.T, b.(BoolV).T)
	case FloatV:
		return c.FPCmp(OpFPEq, x.T, b.(FloatV).T)
	case StructV:
		y := b.(StructV)
		r := c.True
		for i := range x.F {
			r = c.And(r, p.valEq(x.F[i], y.F[i]))
		}
		return r
	case ArrV:
		y := b.(ArrV)
		r := c.True
		for i := range x.E {
			r = c.And(r, p.valEq(x.E[i], y.E[i]))
		}
		return r
	case Ptr:
		y, ok := b.(Ptr)
		if !ok {
			break
		}
		return p.ptrEq(x, y)
	case StringV:
		return p.stringEq(x, b.(StringV))
	case IfaceV:
		y, ok := b.(IfaceV)
		if !ok {
			break
		}
		if x.T == nil || y.T == nil {
			return c.Bool(x.T == nil && y.T == nil)
		}
		if !types.Identical(x.T, y.T) {
			return c.False
		}
		return p.valEq(x.V, y.V)
	case SliceV:
		y := b.(SliceV)
		// only comparison against nil is legal
		if y.IsNil() {
			return c.Bool(x.IsNil())
		}
		if x.IsNil() {
			return c.Bool(y.IsNil())
		}
	case MapV:
		y := b.(MapV)
		return c.Bool(x.M == y.M)
	case ChanV:
		y := b.(ChanV)
		return c.Bool(x.C == y.C)
	case FuncV:
		y := b.(FuncV)
		if y.Fn == nil && y.Builtin == "" {
			return c.Bool(x.Fn == nil && x.Builtin == "")
		}
		if x.Fn == nil && x.Builtin == "" {
			return c.Bool(y.Fn == nil && y.Builtin == "")
		}
	}
	p.unsupported(fmt.Sprintf("valEq on %T / %T", a, b))
	return nil
}

func (p *Path) ptrEq(x, y Ptr) *Term {
	c := p.ctx
	if x.Kind == PNil || y.Kind == PNil {
		return c.Bool(x.Kind == y.Kind)
	}
	if x.Kind == PCell && y.Kind == PCell {
		return c.Bool(x.Cell == y.Cell)
	}
	if (x.Kind == PElem || x.Kind == PView) && (y.Kind == PElem || y.Kind == PView) {
		if x.Arr != y.Arr {
			return c.False
		}
		return c.Eq(p.viewOff(x), p.viewOff(y))
	}
	return c.False
}

func (p *Path) constInt(t *Term, what string) (uint64, bool) {
	if t.IsConst() {
		return t.Val, true
	}
	return 0, false
}

// constTableLookup encodes a read of a constant table at a symbolic index as a nested ite over index ranges grouped by
// value (e.g. a 256-entry character-class table with 5 distinct values becomes a handful of range tests).
func (a *IntArrCell) constTableLookup(c *Ctx, idx *Term) *Term {
	keys := sortedKeys(a.Ov)
	for _, k := range keys {
		if !a.Ov[k].IsConst() {
			return nil
		}
	}
	type run struct{ lo, hi, val uint64 }
	var runs []run
	for _, k := range keys {
		v := a.Ov[k].Val
		if n := len(runs); n > 0 && runs[n-1].hi+1 == k && runs[n-1].val == v {
			runs[n-1].hi = k
			continue
		}
		runs = append(runs, run{k, k, v})
	}
	if len(runs) > 64 {
		return nil
	}
	// indices not written read as zero (the array default)
	res := c.BV(a.EW, 0)
	for i := len(runs) - 1; i >= 0; i-- {
		r := runs[i]
		if r.val == 0 {
			continue
		}
		var cond *Term
		if r.lo == r.hi {
			cond = c.Eq(idx, c.BV(64, r.lo))
		} else {
			cond = c.And(c.ULE(c.BV(64, r.lo), idx), c.ULE(idx, c.BV(64, r.hi)))
		}
		res = c.Ite(cond, c.BV(a.EW, r.val), res)
	}
	return res
}
