#!/usr/bin/env python3
"""Regenerates MANIFEST.json from harness/index.json (claimed checks) and the not-applicable table below."""
import json, os
V = os.path.dirname(os.path.abspath(__file__))
props = [json.loads(l) for l in open(os.path.join(V, "properties.jsonl"))]
index = json.load(open(os.path.join(V, "harness", "index.json")))

NA = {
 "C07": "closure of the reference graph over arbitrary chunk sets decoded through callbacks and Go maps of symbolic size: not encodable within reach of a bounded SSA executor (DESIGN 5, C07)",
 "C08": "garbage collection over whole repositories, GC phases and writer schedules (DESIGN 5, C08)",
 "C11": "prolly tree cursors over heap-allocated nodes behind a NodeStore; tree shapes depend on content-defined chunking (DESIGN 5, C11-C14)",
 "C12": "chunker resynchronisation uses floating point (math.Expm1) and xxhash over whole streams: cannot be encoded (DESIGN 5, C11-C14)",
 "C13": "tree differ over heap nodes (DESIGN 5, C11-C14)",
 "C14": "three-way tree merge / patch generator over heap nodes (DESIGN 5, C11-C14)",
 "C17": "indexed JSON documents: pointer- and string-heavy, third-party JSON (DESIGN 5, C17)",
 "C19": "merge bases over commit DAGs on a heap of commit objects loaded through a value store (DESIGN 5, C19); ancestor-spec syntax is decided under C44",
 "C22": "SQL sessions / engine: whole-program behaviour (DESIGN 5, C22-C26)",
 "C23": "SQL transactions + merge: whole-program behaviour (DESIGN 5, C22-C26)",
 "C24": "SQL constraint validation: whole-program behaviour (DESIGN 5, C22-C26)",
 "C25": "SQL writers + prolly maps (DESIGN 5, C22-C26)",
 "C26": "whole SQL engine differential (DESIGN 5, C22-C26)",
 "C29": "dolt_merge end to end (DESIGN 5, C29-C37)",
 "C30": "two merge implementations over trees (DESIGN 5, C29-C37)",
 "C31": "cherry-pick / revert / rebase end to end (DESIGN 5, C29-C37)",
 "C32": "diff tables / patch replay end to end (DESIGN 5, C29-C37)",
 "C33": "AS OF / history tables end to end (DESIGN 5, C29-C37)",
 "C34": "stash / reset / checkout end to end (DESIGN 5, C29-C37)",
 "C35": "push / pull / clone: network, schedules (DESIGN 5, C29-C37)",
 "C36": "dump/import: escaping kernel lives in vitess, rest is whole-program (DESIGN 5, C29-C37)",
 "C37": "schema flatbuffers over GMS type objects + sha512/rand-seeded tags (DESIGN 5, C29-C37)",
 "C43": "conflict tables end to end (DESIGN 5, C43)",
 "C45": "clusters, replication, gRPC, restarts (DESIGN 5, C45)",
 "C46": "ignore patterns are compiled to regexps at run time from data; would need a symbolic regexp compiler (DESIGN 5, C46)",
 "C47": "drop/undrop of whole databases on a real file system (DESIGN 5, C47)",
}
NA.update({
 "C20": "linearizability of ref updates quantifies over goroutine/process schedules of datas.database.update over a value store; the executor has no threads and the optimistic loop's state is a heap of prolly address maps (DESIGN 5, C20/C21); harness not built, not claimed",
 "C21": "commit + working-set update: one store-root CAS over prolly address maps under concurrent writers and crash points (DESIGN 5, C20/C21); harness not built, not claimed",
 "C28": "the property quantifies over schedules of concurrent sessions; the sequential kernel (SequenceTracker.Next/Set) needs a session, a provider and a working set behind validateBounds and go-mysql-server type conversion behind WithSQLValue (DESIGN 9.1); harness not built, not claimed",
})
NOT_BUILT = "within reach of the engine (DESIGN section 5) but the harness is not built; not claimed"

checks, serves = [], []
for pid in sorted(index):
    c = index[pid]
    if c.get("disabled"):
        continue
    serves.append(pid)
    checks.append({
        "property_id": pid,
        "quick_cmd": "./check %s --tier quick" % pid,
        "thorough_cmd": "./check %s --tier thorough" % pid,
        "evidence_file": "/verif/evidence/%s.json" % pid,
        "replay_cmd_template": "./check --replay {path}",
        "engine": "gosmt",
        "level_claimed": {"category": "model_checking",
                          "text": c.get("level_text", "bounded symbolic execution of the real Go functions (go/ssa -> SMT-LIB2); every assertion and every Go run-time panic site on every feasible path within the stated bounds is decided by z3; counterexamples are replayed natively"),
                          "design_ref": "DESIGN.md section 5, " + pid},
        "level_note": c.get("level_note", "") or ("bounds: %s. Outside: %s. Trusted: go/ssa, the encoder (validated per run by native replay of path witnesses), stub contracts listed in the evidence, z3." % (json.dumps(c.get("bounds")), c.get("outside", ""))),
        "technique": c.get("technique", "bounded symbolic execution of Go SSA + SMT (z3), native replay of counterexamples"),
    })
na = []
for p in props:
    pid = p["id"]
    if pid in serves:
        continue
    na.append({"property_id": pid, "reason": NA.get(pid, NOT_BUILT)})

m = {
 "version": 1,
 "setup_cmd": "cd /verif/engine && GOFLAGS=-mod=mod GOPROXY=off go build -o /verif/bin/gosmt .",
 "hooks": {"guard": "verif", "enable": "none needed: harnesses and the runtime shim are injected through go/packages and `go test -overlay`; there are no hook commits in /repo (only unguarded fix: commits)",
           "baseline_off_cmd": "for m in $(cat /w/out/gomods.txt); do MF=$(cd /repo/$m && . /w/out/goenv.sh && gomodflag); (cd /repo/$m && go test $MF -json -vet=off -count=1 -timeout 25m ./...); done",
           "source_commits": [], "add_only": True},
 "engines": [{"name": "gosmt", "path": "/verif/engine", "serves_properties": serves,
              "kind_free_text": "bounded symbolic executor for Go SSA (golang.org/x/tools/go/ssa v0.50.0) emitting SMT-LIB2 for z3 4.8.12 (cvc5 optional); path-forking, solver-decided obligations, native replay"}],
 "checks": checks,
 "notes": "See DESIGN.md. Exit codes of every check: 0 held within bounds, 1 reproduced violation (VIOLATION line), 2 inconclusive (never reported as success). known_findings.json lists genuine defects (fixed or recorded).",
 "not_applicable": na,
}
json.dump(m, open(os.path.join(V, "MANIFEST.json"), "w"), indent=1)
print("claimed:", serves, "n/a:", len(na))
