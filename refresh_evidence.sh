#!/bin/sh
# Re-run every registered quick check exactly as the acceptance run does (fresh evidence, VERIF_SEED=1, VERIF_TIER=quick)
# so that the committed evidence/<id>.json always describes a quick run of the committed machinery on the current tree.
# Run this before every commit that touches engine/, harness/ or check.
cd "$(dirname "$0")" || exit 2
export VERIF_SEED=1 VERIF_TIER=quick
sh -c "$(python3 -c 'import json;print(json.load(open("MANIFEST.json"))["setup_cmd"])')" || exit 2
rc=0
for p in $(python3 -c 'import json;print(" ".join(c["property_id"] for c in json.load(open("MANIFEST.json"))["checks"]))'); do
  rm -f evidence/$p.json
  ./check $p --tier quick > out/refresh_$p.log 2>&1
  e=$?
  echo "$p exit=$e $(tail -1 out/refresh_$p.log)"
  [ $e -ne 0 ] && rc=1
  [ -s evidence/$p.json ] || { echo "$p: no evidence written"; rc=1; }
done
exit $rc
